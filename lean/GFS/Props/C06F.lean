import GFS.Props.C06
set_option linter.unusedSimpArgs false
set_option linter.unusedVariables false
/-
  C06, several uploads: what is done to one upload never changes another (other id, or other
  bucket) — its parts, metadata, key — whether the operation succeeds or not.
-/
namespace GFS.Props.C06F
open GFS GFS.Model GFS.Model.Upl

/-- the pending upload an (bucket, key, id) names, if any -/
def pending (u : Upl) (b : Bytes) (k : Key) (id : Nat) : Option MPU :=
  match u.get b k id with
  | .ok (_, m) => some m
  | _ => none

theorem find_map_set (l : List (Nat × MPU)) (m : MPU) (id2 : Nat) (h : id2 ≠ m.id) :
    ((l.map (fun p => if p.1 == m.id then (p.1, m) else p)).find? (·.1 == id2)).map (·.2) =
      (l.find? (·.1 == id2)).map (·.2) := by
  induction l with
  | nil => rfl
  | cons p ps ih =>
    rw [List.map_cons, List.find?_cons, List.find?_cons]
    by_cases hp : (p.1 == m.id) = true
    · have hpm : p.1 = m.id := by simpa using hp
      have hne : (p.1 == id2) = false := by
        rw [hpm]; simp; exact fun e => h e.symm
      rw [if_pos hp]
      simp only [hne]
      exact ih
    · rw [if_neg hp]
      by_cases hq : (p.1 == id2) = true
      · simp only [hq]
      · have hq' : (p.1 == id2) = false := by simpa using hq
        simp only [hq']
        exact ih

theorem find_set_ne (bu : BUps) (m : MPU) (id2 : Nat) (h : id2 ≠ m.id) : (bu.set m).find id2 = bu.find id2 := by
  unfold BUps.set BUps.find
  exact find_map_set bu.uploads m id2 h

theorem find_filter_ne (l : List (Nat × MPU)) (mid id2 : Nat) (h : id2 ≠ mid) :
    ((l.filter (fun p => !(p.1 == mid))).find? (·.1 == id2)).map (·.2) = (l.find? (·.1 == id2)).map (·.2) := by
  induction l with
  | nil => rfl
  | cons p ps ih =>
    rw [List.filter_cons, List.find?_cons]
    by_cases hp : (p.1 == mid) = true
    · have hpm : p.1 = mid := by simpa using hp
      have hne : (p.1 == id2) = false := by
        rw [hpm]; simp; exact fun e => h e.symm
      simp only [hp, Bool.not_true, Bool.false_eq_true, if_false, hne]
      exact ih
    · have hp' : (!(p.1 == mid)) = true := by simpa using hp
      rw [if_pos hp', List.find?_cons]
      by_cases hq : (p.1 == id2) = true
      · simp only [hq]
      · have hq' : (p.1 == id2) = false := by simpa using hq
        simp only [hq']
        exact ih

theorem find_remove_ne (bu : BUps) (m : MPU) (id2 : Nat) (h : id2 ≠ m.id) : (bu.remove m).find id2 = bu.find id2 := by
  unfold BUps.remove BUps.find
  exact find_filter_ne bu.uploads m.id id2 h

/-- replacing the bookkeeping of bucket b by one that agrees on id2 keeps what (b2,k2,id2) names -/
theorem pending_insert (u : Upl) (b : Bytes) (bu bu' : BUps) (n : Nat) (b2 : Bytes) (k2 : Key) (id2 : Nat)
    (hb : SMap.find u.buckets b = some bu) (hf : b2 = b → bu'.find id2 = bu.find id2) :
    pending ⟨SMap.insert u.buckets b bu', n⟩ b2 k2 id2 = pending u b2 k2 id2 := by
  unfold pending Upl.get
  by_cases hbb : b = b2
  · subst hbb
    simp only [SMap.find_insert_self, hb, hf rfl]
    cases bu.find id2 with
    | none => rfl
    | some v =>
      simp only
      by_cases hc : (v.bucket == b && v.key == k2) = true <;> simp [hc]
  · simp only [SMap.find_insert_ne _ _ _ _ hbb]

/-- every upload is filed under its own id (true of the empty uploader, kept by every operation) -/
def KeyedB (bu : BUps) : Prop := ∀ p ∈ bu.uploads, p.2.id = p.1
def Keyed (u : Upl) : Prop := ∀ b bu, SMap.find u.buckets b = some bu → KeyedB bu

theorem find_keyed (bu : BUps) (id : Nat) (m : MPU) (hk : KeyedB bu) (h : bu.find id = some m) : m.id = id := by
  unfold BUps.find at h
  cases hx : bu.uploads.find? (·.1 == id) with
  | none => simp [hx] at h
  | some p =>
    simp only [hx, Option.map_some, Option.some.injEq] at h
    subst h
    have hm := List.mem_of_find?_eq_some hx
    have hp : p.1 = id := by simpa using List.find?_some hx
    rw [hk p hm, hp]

/-- what `u.get` returning an upload says about the state -/
theorem get_ok (u : Upl) (b : Bytes) (k : Key) (id : Nat) (bu : BUps) (m : MPU) (h : u.get b k id = .ok (bu, m)) :
    SMap.find u.buckets b = some bu ∧ bu.find id = some m := by
  unfold Upl.get at h
  cases hb : SMap.find u.buckets b with
  | none => simp [hb] at h
  | some bu0 =>
    simp only [hb] at h
    cases hf : bu0.find id with
    | none => simp [hf] at h
    | some m0 =>
      simp only [hf] at h
      split at h
      · simp only [Res.ok.injEq, Prod.mk.injEq] at h
        obtain ⟨rfl, rfl⟩ := h
        exact ⟨rfl, hf⟩
      · simp at h

/-- **uploadPart_frame**: uploading a part to upload `id` of bucket `b` — accepted or refused —
    leaves every other pending upload (another id, or another bucket) exactly as it was -/
theorem uploadPart_frame (md5 : Bytes → Bytes) (u : Upl) (hk : Keyed u) (b : Bytes) (k : Key) (id n : Nat) (declared : Int)
    (body : Bytes) (b2 : Bytes) (k2 : Key) (id2 : Nat) (h : id2 ≠ id ∨ b2 ≠ b) :
    pending (u.uploadPart md5 b k id n declared body).1 b2 k2 id2 = pending u b2 k2 id2 := by
  unfold Upl.uploadPart
  split
  · rfl
  · split
    · rfl
    · cases hg : u.get b k id with
      | err c => rfl
      | panic s => rfl
      | ok r =>
        obtain ⟨bu, m⟩ := r
        obtain ⟨hb, hf⟩ := get_ok u b k id bu m hg
        have hid : m.id = id := find_keyed bu id m (hk b bu hb) hf
        simp only
        apply pending_insert u b bu _ _ b2 k2 id2 hb
        intro hbb
        apply find_set_ne
        simp only
        rcases h with h | h
        · rw [hid]; exact h
        · exact absurd hbb h

/-- **abort_frame** -/
theorem abort_frame (u : Upl) (hk : Keyed u) (b : Bytes) (k : Key) (id : Nat) (b2 : Bytes) (k2 : Key) (id2 : Nat)
    (h : id2 ≠ id ∨ b2 ≠ b) :
    pending (u.abort b k id).1 b2 k2 id2 = pending u b2 k2 id2 := by
  unfold Upl.abort
  cases hg : u.get b k id with
  | err c => rfl
  | panic s => rfl
  | ok r =>
    obtain ⟨bu, m⟩ := r
    obtain ⟨hb, hf⟩ := get_ok u b k id bu m hg
    have hid : m.id = id := find_keyed bu id m (hk b bu hb) hf
    simp only
    apply pending_insert u b bu _ _ b2 k2 id2 hb
    intro hbb
    apply find_remove_ne
    rcases h with h | h
    · rw [hid]; exact h
    · exact absurd hbb h

/-- **complete_frame**: completing upload `id` — accepted or rejected — leaves every other
    pending upload exactly as it was -/
theorem complete_frame (md5 : Bytes → Bytes) (u : Upl) (hk : Keyed u) (mem : Mem) (b : Bytes) (k : Key) (id : Nat)
    (listed : List (Int × Bytes)) (b2 : Bytes) (k2 : Key) (id2 : Nat) (h : id2 ≠ id ∨ b2 ≠ b) :
    pending (u.complete md5 mem b k id listed).1 b2 k2 id2 = pending u b2 k2 id2 := by
  unfold Upl.complete
  cases hg : u.get b k id with
  | err c => rfl
  | panic s => rfl
  | ok r =>
    obtain ⟨bu, m⟩ := r
    obtain ⟨hb, hf⟩ := get_ok u b k id bu m hg
    have hid : m.id = id := find_keyed bu id m (hk b bu hb) hf
    simp only
    cases validate m listed with
    | err c => rfl
    | panic s => rfl
    | ok ps =>
      simp only
      cases hp : mem.put md5 b k m.md (ps.map (·.body)).flatten with
      | mk mem' r =>
        cases r with
        | err c => rfl
        | panic s => rfl
        | ok vid =>
          simp only
          apply pending_insert u b bu _ _ b2 k2 id2 hb
          intro hbb
          apply find_remove_ne
          rcases h with h | h
          · rw [hid]; exact h
          · exact absurd hbb h

/-! the invariant is kept -/
theorem keyed_empty : Keyed Upl.empty := by intro b bu h; simp [Upl.empty] at h

theorem keyedB_set (bu : BUps) (m : MPU) (h : KeyedB bu) : KeyedB (bu.set m) := by
  intro p hp
  simp only [BUps.set, List.mem_map] at hp
  obtain ⟨q, hq, rfl⟩ := hp
  split
  · rename_i hc; simp at hc; simp [hc]
  · exact h q hq

theorem keyedB_remove (bu : BUps) (m : MPU) (h : KeyedB bu) : KeyedB (bu.remove m) := by
  intro p hp
  simp only [BUps.remove, List.mem_filter] at hp
  exact h p hp.1

theorem keyedB_add (bu : BUps) (m : MPU) (h : KeyedB bu) : KeyedB (bu.add m) := by
  intro p hp
  simp only [BUps.add, List.mem_append, List.mem_filter, List.mem_singleton] at hp
  rcases hp with hp | hp
  · exact h p hp.1
  · subst hp; rfl

theorem keyed_insert (u : Upl) (b : Bytes) (bu' : BUps) (n : Nat) (h : Keyed u) (hb : KeyedB bu') :
    Keyed ⟨SMap.insert u.buckets b bu', n⟩ := by
  intro b2 bu2 h2
  by_cases hbb : b = b2
  · subst hbb
    simp only [SMap.find_insert_self, Option.some.injEq] at h2
    subst h2; exact hb
  · simp only [SMap.find_insert_ne _ _ _ _ hbb] at h2
    exact h b2 bu2 h2

theorem keyed_create (u : Upl) (b : Bytes) (k : Key) (md : Meta) (h : Keyed u) : Keyed (u.create b k md).1 := by
  unfold Upl.create
  apply keyed_insert u b _ _ h
  apply keyedB_add
  cases hb : SMap.find u.buckets b with
  | none => intro p hp; simp at hp
  | some bu => simpa using h b bu hb

theorem keyed_uploadPart (md5 : Bytes → Bytes) (u : Upl) (b : Bytes) (k : Key) (id n : Nat) (declared : Int) (body : Bytes)
    (h : Keyed u) : Keyed (u.uploadPart md5 b k id n declared body).1 := by
  unfold Upl.uploadPart
  split
  · exact h
  · split
    · exact h
    · cases hg : u.get b k id with
      | err c => exact h
      | panic s => exact h
      | ok r =>
        obtain ⟨bu, m⟩ := r
        obtain ⟨hb, _⟩ := get_ok u b k id bu m hg
        exact keyed_insert u b _ _ h (keyedB_set bu _ (h b bu hb))

theorem keyed_abort (u : Upl) (b : Bytes) (k : Key) (id : Nat) (h : Keyed u) : Keyed (u.abort b k id).1 := by
  unfold Upl.abort
  cases hg : u.get b k id with
  | err c => exact h
  | panic s => exact h
  | ok r =>
    obtain ⟨bu, m⟩ := r
    obtain ⟨hb, _⟩ := get_ok u b k id bu m hg
    exact keyed_insert u b _ _ h (keyedB_remove bu _ (h b bu hb))

/-! Non-vacuity: two uploads of one key; a part for the second leaves the first untouched. -/
example : let u := (Upl.create (Upl.create Upl.empty [98] [107] []).1 [98] [107] []).1
    pending (u.uploadPart id [98] [107] 2 1 1 [7]).1 [98] [107] 1 = pending u [98] [107] 1 ∧
    (pending u [98] [107] 1).isSome = true := by decide

end GFS.Props.C06F
