import GFS.Props.C04W
import GFS.Props.C03G
set_option linter.unusedSimpArgs false
set_option linter.unusedVariables false
/-
  C04 with a delimiter: following NextMarker visits every Contents entry once and every common
  prefix once, for every bucket content, prefix, delimiter byte and page size.
-/
namespace GFS.Props.C04D
open GFS GFS.Model GFS.Bytes GFS.Spec.Listing GFS.Props.C03M GFS.Props.C03G

/-! ### strings -/

theorem hasPrefix_iff (s p : Bytes) : hasPrefix s p = true ↔ ∃ t, s = p ++ t := by
  induction p generalizing s with
  | nil => simp [hasPrefix]
  | cons c cs ih =>
    cases s with
    | nil => simp [hasPrefix]
    | cons a as =>
      simp only [hasPrefix, Bool.and_eq_true, beq_iff_eq, ih, List.cons_append, List.cons.injEq]
      constructor
      · rintro ⟨rfl, t, rfl⟩; exact ⟨t, rfl, rfl⟩
      · rintro ⟨t, rfl, rfl⟩; exact ⟨rfl, t, rfl⟩

/-- lexicographic order: between two strings with a common prefix lies only that prefix's family -/
theorem prefix_between (x : Bytes) : ∀ (a b c : Bytes), hasPrefix a x = true → hasPrefix c x = true →
    lt a b = true → lt b c = true → hasPrefix b x = true := by
  induction x with
  | nil => intro a b c _ _ _ _; simp [hasPrefix]
  | cons h t ih =>
    intro a b c ha hc hab hbc
    cases a with
    | nil => simp [hasPrefix] at ha
    | cons a0 a' =>
      cases c with
      | nil => simp [hasPrefix] at hc
      | cons c0 c' =>
        simp only [hasPrefix, Bool.and_eq_true, beq_iff_eq] at ha hc
        obtain ⟨e1, ha'⟩ := ha
        obtain ⟨e2, hc'⟩ := hc
        rw [e1] at hab
        rw [e2] at hbc
        cases b with
        | nil => simp [lt] at hab
        | cons b0 b' =>
          unfold lt at hab hbc
          by_cases h1 : h < b0
          · by_cases h2 : b0 < h
            · exact absurd h1 (u8_lt_asymm h2)
            · simp [h2, h1] at hbc
          · by_cases h2 : b0 < h
            · simp [h1, h2] at hab
            · have : h = b0 := u8_eq_of_not_lt h1 h2
              subst this
              simp only [h1, if_false] at hab hbc
              simp only [hasPrefix, beq_self_eq_true, Bool.true_and]
              exact ih a' b' c' ha' hc' hab hbc

theorem indexOf_notin (d : UInt8) (seg tl : Bytes) (h : d ∉ seg) : indexOf d (seg ++ d :: tl) = some seg.length := by
  induction seg with
  | nil => simp [indexOf]
  | cons c cs ih =>
    have hc : (c == d) = false := by
      simp only [List.mem_cons, not_or] at h
      simpa using fun e => h.1 e.symm
    have hcs : d ∉ cs := fun hm => h (List.mem_cons_of_mem _ hm)
    simp [indexOf, hc, ih hcs]

theorem indexOf_take_notin (d : UInt8) (s : Bytes) (i : Nat) (h : indexOf d s = some i) : d ∉ s.take i := by
  induction s generalizing i with
  | nil => simp [indexOf] at h
  | cons c cs ih =>
    unfold indexOf at h
    split at h
    · have : i = 0 := by simpa using h.symm
      subst this; simp
    · rename_i hc
      cases hi : indexOf d cs with
      | none => simp [hi] at h
      | some j =>
        simp only [hi, Option.map_some, Option.some.injEq] at h
        subst h
        simp only [List.take_succ_cons, List.mem_cons, not_or]
        exact ⟨by simpa using fun e => hc (by simp [e]), ih j hi⟩

/-- a key is grouped under the common prefix `x` exactly when `x` is the prefix followed by a
    delimiter-free segment and the delimiter, and the key starts with `x` -/
theorem cprefix_iff (d : UInt8) (pfx key x : Bytes) :
    entryOf pfx (some d) key = some (.cprefix x) ↔
      ∃ seg, x = pfx ++ seg ++ [d] ∧ d ∉ seg ∧ hasPrefix key x = true := by
  constructor
  · intro h
    unfold entryOf at h
    split at h
    · simp at h
    · rename_i hp
      have hp' : hasPrefix key pfx = true := by simpa using hp
      obtain ⟨rest, hk⟩ := (hasPrefix_iff key pfx).mp hp'
      have hdrop : key.drop pfx.length = rest := by rw [hk]; simp
      simp only [hdrop] at h
      cases hi : indexOf d rest with
      | none => simp [hi] at h
      | some i =>
        simp only [hi, Option.some.injEq, Entry.cprefix.injEq] at h
        obtain ⟨t, _, hs, htk⟩ := indexOf_some_split d rest i hi
        refine ⟨rest.take i, by rw [← h, htk, List.append_assoc], indexOf_take_notin d rest i hi, ?_⟩
        rw [← h, hk]
        apply (hasPrefix_iff _ _).mpr
        exact ⟨rest.drop (i + 1), by rw [List.append_assoc, List.take_append_drop]⟩
  · rintro ⟨seg, rfl, hseg, hpre⟩
    obtain ⟨tl, hk⟩ := (hasPrefix_iff _ _).mp hpre
    unfold entryOf
    have hp : hasPrefix key pfx = true := (hasPrefix_iff _ _).mpr ⟨seg ++ [d] ++ tl, by rw [hk]; simp [List.append_assoc]⟩
    simp only [hp, Bool.not_true, Bool.false_eq_true, if_false]
    have hdrop : key.drop pfx.length = seg ++ d :: tl := by rw [hk]; simp [List.append_assoc]
    simp only [hdrop, indexOf_notin d seg tl hseg]
    have e : seg ++ d :: tl = (seg ++ [d]) ++ tl := by simp
    rw [e, List.take_left' (by simp)]
    simp [List.append_assoc]

/-- keys grouped under one common prefix are contiguous in key order -/
theorem cprefix_between (d : UInt8) (pfx a b c x : Bytes)
    (ha : entryOf pfx (some d) a = some (.cprefix x)) (hc : entryOf pfx (some d) c = some (.cprefix x))
    (hab : lt a b = true) (hbc : lt b c = true) : entryOf pfx (some d) b = some (.cprefix x) := by
  obtain ⟨seg, hx, hseg, hpa⟩ := (cprefix_iff d pfx a x).mp ha
  obtain ⟨_, _, _, hpc⟩ := (cprefix_iff d pfx c x).mp hc
  exact (cprefix_iff d pfx b x).mpr ⟨seg, hx, hseg, prefix_between x a b c hpa hpc hab hbc⟩

/-! ### one page -/

theorem contentsOf_append (p : Prefix) (a b : List (Key × Obj)) : contentsOf p (a ++ b) = contentsOf p a ++ contentsOf p b := by
  simp [contentsOf, List.filterMap_append]
theorem cpsOf_append (p : Prefix) (a b : List (Key × Obj)) : cpsOf p (a ++ b) = cpsOf p a ++ cpsOf p b := by
  simp [cpsOf, List.filterMap_append]
theorem addAll_append (ps xs ys : List Bytes) : addAll ps (xs ++ ys) = addAll (addAll ps xs) ys := by
  simp [addAll, List.foldl_append]

theorem getLast_getD_cons (l : List Bytes) : ∀ (a x y : Bytes), (a :: l).getLast?.getD x = (a :: l).getLast?.getD y := by
  induction l with
  | nil => intro a x y; simp
  | cons b bs ih => intro a x y; simp only [List.getLast?_cons_cons]; exact ih b x y

/-- the walk-ahead after a page that ended on a common prefix: it passes exactly the following
    objects grouped under the same prefix and names the last of them -/
theorem skipCovered_spec (p : Prefix) (mp : Bytes) (objs : List (Key × Obj)) (hinv : ∀ q ∈ objs, q.2.data ≠ none) :
    ∀ nm, ∃ cov l3, objs = cov ++ l3 ∧ (∀ q ∈ cov, p.match_ q.1 = some (true, mp)) ∧
      (∀ q, l3.head? = some q → p.match_ q.1 ≠ some (true, mp)) ∧
      skipCovered p mp objs nm = .ok (((cov.map (·.1)).getLast?).getD nm, !l3.isEmpty) := by
  induction objs with
  | nil => intro nm; exact ⟨[], [], rfl, by simp, by simp, by simp [skipCovered]⟩
  | cons q rest ih =>
    intro nm
    obtain ⟨k, o⟩ := q
    have hrest : ∀ q ∈ rest, q.2.data ≠ none := fun q hq => hinv q (List.mem_cons_of_mem _ hq)
    have hd : o.data ≠ none := hinv (k, o) (List.mem_cons_self ..)
    cases hdata : o.data with
    | none => exact absurd hdata hd
    | some dv =>
      by_cases hm : p.match_ k = some (true, mp)
      · obtain ⟨cov, l3, h1, h2, h3, h4⟩ := ih hrest k
        refine ⟨(k, o) :: cov, l3, by rw [h1]; rfl, ?_, h3, ?_⟩
        · intro q hq
          rcases List.mem_cons.mp hq with rfl | hq
          · exact hm
          · exact h2 q hq
        · unfold skipCovered
          simp only [hdata, hm, beq_self_eq_true, if_true, h4]
          cases cov with
          | nil => simp
          | cons c cs =>
            simp only [List.map_cons, List.getLast?_cons_cons]
            rw [getLast_getD_cons _ _ k nm]
      · refine ⟨[], (k, o) :: rest, rfl, by simp, ?_, ?_⟩
        · intro q hq; simp at hq; subst hq; exact hm
        · unfold skipCovered
          simp only [hdata]
          cases hmk : p.match_ k with
          | none => simp
          | some r =>
            obtain ⟨cp, mp'⟩ := r
            cases cp with
            | false => simp
            | true =>
              have : (mp' == mp) = false := by
                simp; intro e; subst e; exact hm hmk
              simp [this]

/-- how a page can end -/
inductive PageEnd (p : Prefix) (k : Key) (l2 : List (Key × Obj)) : Bool → Bytes → Bool → Bytes → Prop where
  | content (mp : Bytes) : PageEnd p k l2 false mp (!l2.isEmpty) k
  | cprefix (mp : Bytes) (nm : Bytes) (more : Bool) (h : skipCovered p mp l2 k = .ok (nm, more)) : PageEnd p k l2 true mp more nm

/-- one page with any prefix/delimiter: either everything left fits (and the listing loop ends
    as the unpaginated one), or the page ends exactly at the object whose entry filled it -/
theorem page_delim (p : Prefix) (mk : Int) (hmk : 1 ≤ mk) (objs : List (Key × Obj)) (cnt : Int) (last : Bytes)
    (acc : ObjectList) (hc : cnt < mk) (hinv : ∀ q ∈ objs, q.2.data ≠ none)
    (hlast : last = [] ∨ last ∈ acc.prefixes)
    (hne : ∀ q ∈ objs, ∀ mp, p.match_ q.1 = some (true, mp) → mp ≠ []) :
    listLoop p mk objs cnt last acc =
        .ok { acc with contents := acc.contents ++ contentsOf p objs, prefixes := addAll acc.prefixes (cpsOf p objs) } ∨
    ∃ l1 k o l2 cp mp c t n, objs = l1 ++ (k, o) :: l2 ∧ liveMatch p (k, o) = some (cp, mp, c) ∧
      PageEnd p k l2 cp mp t n ∧
      listLoop p mk objs cnt last acc =
        .ok ⟨acc.contents ++ contentsOf p (l1 ++ [(k, o)]), addAll acc.prefixes (cpsOf p (l1 ++ [(k, o)])), t, n⟩ := by
  induction objs generalizing cnt last acc with
  | nil => left; simp [listLoop, contentsOf, cpsOf, addAll]
  | cons q rest ih =>
    obtain ⟨k, o⟩ := q
    have hrest : ∀ q ∈ rest, q.2.data ≠ none := fun q hq => hinv q (List.mem_cons_of_mem _ hq)
    have hne' : ∀ q ∈ rest, ∀ mp, p.match_ q.1 = some (true, mp) → mp ≠ [] := fun q hq => hne q (List.mem_cons_of_mem _ hq)
    have hd : o.data ≠ none := hinv (k, o) (List.mem_cons_self ..)
    -- lifting the induction hypothesis over an object that contributes `cs` / `ps`
    have lift : ∀ (cnt' : Int) (last' : Bytes) (acc' : ObjectList) (cs : List Content) (ps : List Bytes),
        contentsOf p [(k, o)] = cs → cpsOf p [(k, o)] = ps →
        acc'.contents = acc.contents ++ cs → acc'.prefixes = addAll acc.prefixes ps →
        acc'.truncated = acc.truncated → acc'.next = acc.next →
        cnt' < mk → (last' = [] ∨ last' ∈ acc'.prefixes) →
        listLoop p mk ((k, o) :: rest) cnt last acc = listLoop p mk rest cnt' last' acc' →
        (listLoop p mk ((k, o) :: rest) cnt last acc =
          .ok { acc with contents := acc.contents ++ contentsOf p ((k, o) :: rest),
                         prefixes := addAll acc.prefixes (cpsOf p ((k, o) :: rest)) } ∨
        ∃ l1 k2 o2 l2 cp mp c t n, (k, o) :: rest = l1 ++ (k2, o2) :: l2 ∧ liveMatch p (k2, o2) = some (cp, mp, c) ∧
          PageEnd p k2 l2 cp mp t n ∧
          listLoop p mk ((k, o) :: rest) cnt last acc =
            .ok ⟨acc.contents ++ contentsOf p (l1 ++ [(k2, o2)]), addAll acc.prefixes (cpsOf p (l1 ++ [(k2, o2)])), t, n⟩) := by
      intro cnt' last' acc' cs ps hcs hps hac hap hat han hcl hll hstep
      have e1 : ∀ l, contentsOf p ((k, o) :: l) = cs ++ contentsOf p l := by
        intro l; rw [show (k, o) :: l = [(k, o)] ++ l from rfl, contentsOf_append, hcs]
      have e2 : ∀ l, cpsOf p ((k, o) :: l) = ps ++ cpsOf p l := by
        intro l; rw [show (k, o) :: l = [(k, o)] ++ l from rfl, cpsOf_append, hps]
      rcases ih cnt' last' acc' hcl hrest hll hne' with hA | ⟨l1, k2, o2, l2, cp, mp, c, t, n, h1, h2, h3, h4⟩
      · left
        rw [hstep, hA, e1, e2, addAll_append, hac, hap, hat, han]
        simp [List.append_assoc]
      · right
        refine ⟨(k, o) :: l1, k2, o2, l2, cp, mp, c, t, n, by rw [h1]; rfl, h2, h3, ?_⟩
        rw [hstep, h4, List.cons_append, e1, e2, addAll_append, hac, hap]
        simp [List.append_assoc]
    cases hdata : o.data with
    | none => exact absurd hdata hd
    | some dv =>
      cases hmatch : p.match_ k with
      | none =>
        have h1 : liveMatch p (k, o) = none := by simp [liveMatch, hdata, hmatch]
        apply lift cnt last acc [] [] (by simp [contentsOf, h1]) (by simp [cpsOf, h1]) (by simp) (by simp [addAll]) rfl rfl hc hlast
        conv => lhs; unfold listLoop
        simp [hdata, hmatch]
      | some r =>
        obtain ⟨cp, mp⟩ := r
        cases hmk : dv.marker with
        | true =>
          have h1 : liveMatch p (k, o) = none := by simp [liveMatch, hdata, hmk]
          apply lift cnt last acc [] [] (by simp [contentsOf, h1]) (by simp [cpsOf, h1]) (by simp) (by simp [addAll]) rfl rfl hc hlast
          conv => lhs; unfold listLoop
          simp [hdata, hmatch, hmk]
        | false =>
          have h1 : liveMatch p (k, o) = some (cp, mp, ⟨k, dv.body.length, dv.hash⟩) := by
            simp [liveMatch, hdata, hmk, hmatch]
          cases cp with
          | false =>
            have hcs : contentsOf p [(k, o)] = [⟨k, dv.body.length, dv.hash⟩] := by simp [contentsOf, h1]
            have hps : cpsOf p [(k, o)] = [] := by simp [cpsOf, h1]
            by_cases hfull : cnt + 1 ≥ mk
            · right
              refine ⟨[], k, o, rest, false, mp, _, _, _, rfl, h1, PageEnd.content mp, ?_⟩
              conv => lhs; unfold listLoop
              have hgt : (mk > 0 ∧ cnt + 1 ≥ mk) := ⟨by omega, hfull⟩
              simp [hdata, hmatch, hmk, hgt, addEntry, hcs, hps, addAll]
            · apply lift (cnt + 1) last { acc with contents := acc.contents ++ [⟨k, dv.body.length, dv.hash⟩] } _ _ hcs hps
                rfl (by simp [addAll]) rfl rfl (by omega) (by simpa using hlast)
              conv => lhs; unfold listLoop
              have hgt : ¬ (mk > 0 ∧ cnt + 1 ≥ mk) := by omega
              simp [hdata, hmatch, hmk, hgt, addEntry]
          | true =>
            have hmpne : mp ≠ [] := hne (k, o) (List.mem_cons_self ..) mp hmatch
            have hcs : contentsOf p [(k, o)] = [] := by simp [contentsOf, h1]
            have hps : cpsOf p [(k, o)] = [mp] := by simp [cpsOf, h1]
            by_cases heq : (mp == last) = true
            · have hml : mp = last := by simpa using heq
              have hin : mp ∈ acc.prefixes := by
                rcases hlast with h | h
                · exact absurd (hml.trans h) hmpne
                · rw [hml]; exact h
              apply lift cnt last acc _ _ hcs hps (by simp) (by simp [addAll_cons, hin, addAll]) rfl rfl hc hlast
              conv => lhs; unfold listLoop
              simp [hdata, hmatch, hmk, heq]
            · have heq' : (mp == last) = false := by simpa using heq
              by_cases hfull : cnt + 1 ≥ mk
              · right
                have hgt : (mk > 0 ∧ cnt + 1 ≥ mk) := ⟨by omega, hfull⟩
                obtain ⟨cov, l3, _, _, _, hsk⟩ := skipCovered_spec p mp rest hrest k
                refine ⟨[], k, o, rest, true, mp, _, _, _, rfl, h1, PageEnd.cprefix mp _ _ hsk, ?_⟩
                conv => lhs; unfold listLoop
                simp only [hdata, hmatch, hmk, Bool.false_eq_true, if_false, Bool.true_and, heq', hgt, and_self, if_true, hsk]
                by_cases hcn : mp ∈ acc.prefixes
                · simp [addEntry, hcn, hcs, hps, addAll_cons, addAll]
                · simp [addEntry, hcn, hcs, hps, addAll_cons, addAll]
              · have hgt : ¬ (mk > 0 ∧ cnt + 1 ≥ mk) := by omega
                by_cases hcn : mp ∈ acc.prefixes
                · apply lift (cnt + 1) mp acc _ _ hcs hps (by simp) (by simp [addAll_cons, hcn, addAll]) rfl rfl (by omega) (Or.inr hcn)
                  conv => lhs; unfold listLoop
                  simp [hdata, hmatch, hmk, heq', hgt, addEntry, hcn]
                · apply lift (cnt + 1) mp { acc with prefixes := acc.prefixes ++ [mp] } _ _ hcs hps (by simp)
                    (by simp [addAll_cons, hcn, addAll]) rfl rfl (by omega) (Or.inr (by simp))
                  conv => lhs; unfold listLoop
                  simp [hdata, hmatch, hmk, heq', hgt, addEntry, hcn]

/-! ### pages do not share common prefixes -/

theorem addAll_noop (ps xs : List Bytes) (h : ∀ x ∈ xs, x ∈ ps) : addAll ps xs = ps := by
  induction xs with
  | nil => rfl
  | cons y ys ih =>
    rw [addAll_cons]
    have hy : y ∈ ps := h y (List.mem_cons_self ..)
    have : ps.contains y = true := by simpa using hy
    simp only [this, if_true]
    exact ih (fun x hx => h x (List.mem_cons_of_mem _ hx))

theorem addAll_disjoint (ys : List Bytes) : ∀ (ps qs : List Bytes), (∀ x ∈ ys, x ∉ ps) →
    addAll (ps ++ qs) ys = ps ++ addAll qs ys := by
  induction ys with
  | nil => intro ps qs _; rfl
  | cons y ys ih =>
    intro ps qs h
    have hy : y ∉ ps := h y (List.mem_cons_self ..)
    have hys : ∀ x ∈ ys, x ∉ ps := fun x hx => h x (List.mem_cons_of_mem _ hx)
    rw [addAll_cons, addAll_cons]
    by_cases hq : y ∈ qs
    · have h1 : (ps ++ qs).contains y = true := by simp [hq]
      have h2 : qs.contains y = true := by simpa using hq
      simp only [h1, h2, if_true]
      exact ih ps qs hys
    · have h1 : (ps ++ qs).contains y = false := by simp [hq, hy]
      have h2 : qs.contains y = false := by simpa using hq
      simp only [h1, h2, Bool.false_eq_true, if_false]
      rw [List.append_assoc]
      exact ih ps (qs ++ [y]) hys

/-- an object lying between two objects grouped under `x` is grouped under `x` -/
def Sep (p : Prefix) (L : List (Key × Obj)) : Prop :=
  ∀ l1 q l2, L = l1 ++ q :: l2 → ∀ x, (∃ qa ∈ l1, p.match_ qa.1 = some (true, x)) →
    (∃ qb ∈ l2, p.match_ qb.1 = some (true, x)) → p.match_ q.1 = some (true, x)

theorem sep_suffix (p : Prefix) (pre L : List (Key × Obj)) (h : Sep p (pre ++ L)) : Sep p L := by
  intro l1 q l2 hL x ⟨qa, ha, hma⟩ hb
  exact h (pre ++ l1) q l2 (by rw [hL, List.append_assoc]) x ⟨qa, List.mem_append_right _ ha, hma⟩ hb

theorem liveMatch_match (p : Prefix) (q : Key × Obj) (cp : Bool) (mp : Bytes) (c : Content)
    (h : liveMatch p q = some (cp, mp, c)) : p.match_ q.1 = some (cp, mp) := by
  simp only [liveMatch] at h
  cases hd : q.2.data with
  | none => simp [hd] at h
  | some dv =>
    simp only [hd] at h
    split at h
    · simp at h
    · cases hmm : p.match_ q.1 with
      | none => simp [hmm] at h
      | some r =>
        obtain ⟨cp', mp'⟩ := r
        simp only [hmm, Option.some.injEq, Prod.mk.injEq] at h
        rw [h.1, h.2.1]

theorem mem_cpsOf (p : Prefix) (L : List (Key × Obj)) (x : Bytes) (h : x ∈ cpsOf p L) :
    ∃ q ∈ L, p.match_ q.1 = some (true, x) := by
  simp only [cpsOf, List.mem_filterMap] at h
  obtain ⟨q, hq, hm⟩ := h
  refine ⟨q, hq, ?_⟩
  cases hl : liveMatch p q with
  | none => simp [hl] at hm
  | some r =>
    obtain ⟨cp, mp, c⟩ := r
    cases cp with
    | false => simp [hl] at hm
    | true =>
      simp only [hl, Option.some.injEq] at hm
      subst hm
      exact liveMatch_match p q true mp c hl

/-- the common prefixes of what follows a page are new -/
theorem next_pages_disjoint_content (p : Prefix) (l1 l2 : List (Key × Obj)) (k : Key) (o : Obj) (mp : Bytes) (c : Content)
    (hsep : Sep p (l1 ++ (k, o) :: l2)) (hl : liveMatch p (k, o) = some (false, mp, c)) :
    ∀ x ∈ cpsOf p l2, x ∉ addAll [] (cpsOf p (l1 ++ [(k, o)])) := by
  intro x hx hin
  have hmem := ((addAll_spec (cpsOf p (l1 ++ [(k, o)])) [] List.nodup_nil).2 x).mp hin
  simp only [List.not_mem_nil, false_or] at hmem
  obtain ⟨qa, hqa, hma⟩ := mem_cpsOf p _ x hmem
  obtain ⟨qb, hqb, hmb⟩ := mem_cpsOf p _ x hx
  have hk := liveMatch_match p (k, o) false mp c hl
  rcases List.mem_append.mp hqa with h1 | h1
  · have := hsep l1 (k, o) l2 rfl x ⟨qa, h1, hma⟩ ⟨qb, hqb, hmb⟩
    rw [hk] at this; simp at this
  · simp at h1; subst h1; rw [hk] at hma; simp at hma

theorem next_pages_disjoint_prefix (p : Prefix) (l1 cov l3 : List (Key × Obj)) (k : Key) (o : Obj) (mp : Bytes) (c : Content)
    (hsep : Sep p (l1 ++ (k, o) :: (cov ++ l3))) (hl : liveMatch p (k, o) = some (true, mp, c))
    (hcov : ∀ q ∈ cov, p.match_ q.1 = some (true, mp))
    (hhead : ∀ q, l3.head? = some q → p.match_ q.1 ≠ some (true, mp)) :
    ∀ x ∈ cpsOf p l3, x ∉ addAll [] (cpsOf p (l1 ++ [(k, o)])) := by
  intro x hx hin
  have hmem := ((addAll_spec (cpsOf p (l1 ++ [(k, o)])) [] List.nodup_nil).2 x).mp hin
  simp only [List.not_mem_nil, false_or] at hmem
  obtain ⟨qa, hqa, hma⟩ := mem_cpsOf p _ x hmem
  obtain ⟨qb, hqb, hmb⟩ := mem_cpsOf p _ x hx
  have hk := liveMatch_match p (k, o) true mp c hl
  by_cases hxm : x = mp
  · subst hxm
    cases l3 with
    | nil => simp at hqb
    | cons h3 t3 =>
      have hh := hhead h3 rfl
      rcases List.mem_cons.mp hqb with e | e
      · subst e; exact hh hmb
      · have := hsep (l1 ++ (k, o) :: cov) h3 t3 (by simp [List.append_assoc]) x
          ⟨(k, o), by simp, hk⟩ ⟨qb, e, hmb⟩
        exact hh this
  · rcases List.mem_append.mp hqa with h1 | h1
    · have := hsep l1 (k, o) (cov ++ l3) rfl x ⟨qa, h1, hma⟩ ⟨qb, List.mem_append_right _ hqb, hmb⟩
      rw [hk] at this; simp at this; exact hxm this.symm
    · simp at h1; subst h1; rw [hk] at hma; simp at hma; exact hxm hma.symm

/-! ### the walk -/

open GFS.Props.C04W in
/-- where a page that ended on a common prefix resumes: strictly after the last object the
    walk-ahead passed -/
theorem afterMarker_cov (all pre l1 cov l3 : List (Key × Obj)) (k : Key) (o : Obj)
    (hall : all = pre ++ (l1 ++ (k, o) :: (cov ++ l3))) (hs : SMap.Sorted all)
    (hk : ∀ q ∈ all, q.1 ≠ []) :
    afterMarker all (((cov.map (·.1)).getLast?).getD k) = l3 := by
  rcases List.eq_nil_or_concat cov with rfl | ⟨cov', qn, rfl⟩
  · simp only [List.map_nil, List.getLast?_nil, Option.getD_none, List.nil_append] at *
    have e : all = (pre ++ l1) ++ (k, o) :: l3 := by rw [hall]; simp
    rw [e]
    exact afterMarker_split _ _ k o (hk (k, o) (by rw [hall]; simp)) (by rw [← e]; exact hs)
  · obtain ⟨kn, on⟩ := qn
    simp only [List.concat_eq_append] at *
    have e : all = (pre ++ l1 ++ (k, o) :: cov') ++ (kn, on) :: l3 := by rw [hall]; simp [List.append_assoc]
    have hl : ((List.map (·.1) (cov' ++ [(kn, on)])).getLast?).getD k = kn := by simp
    rw [hl, e]
    exact afterMarker_split _ _ kn on (hk (kn, on) (by rw [hall]; simp)) (by rw [← e]; exact hs)

open GFS.Props.C04W in
theorem walk_delim_aux (m : Mem) (b : Bytes) (bk : Bucket) (hb : SMap.find m.buckets b = some bk)
    (p : Prefix) (mk : Int) (hmk : 1 ≤ mk)
    (hsorted : SMap.Sorted bk.objects) (hinv : ∀ q ∈ bk.objects, q.2.data ≠ none ∧ q.1 ≠ [])
    (hne : ∀ q ∈ bk.objects, ∀ mp, p.match_ q.1 = some (true, mp) → mp ≠ [])
    (hsep : Sep p bk.objects) :
    ∀ (n : Nat) (rest pre : List (Key × Obj)) (marker : Bytes), bk.objects = pre ++ rest →
      afterMarker bk.objects marker = rest → rest.length < n →
      (walk m b p mk n marker).flatMap (·.contents) = contentsOf p rest ∧
      (walk m b p mk n marker).flatMap (·.prefixes) = addAll [] (cpsOf p rest) ∧
      (walk m b p mk n marker).getLast?.map (·.truncated) = some false ∧
      (walk m b p mk n marker).length ≤ rest.length + 1 := by
  intro n
  induction n with
  | zero => intro rest pre marker _ _ h; omega
  | succ n ih =>
    intro rest pre marker hsplit hafter hlen
    have hmemr : ∀ q ∈ rest, q ∈ bk.objects := fun q hq => by rw [hsplit]; exact List.mem_append_right _ hq
    have hinvr : ∀ q ∈ rest, q.2.data ≠ none := fun q hq => (hinv q (hmemr q hq)).1
    have hner : ∀ q ∈ rest, ∀ mp, p.match_ q.1 = some (true, mp) → mp ≠ [] := fun q hq => hne q (hmemr q hq)
    have hsepr : Sep p rest := sep_suffix p pre rest (by rw [← hsplit]; exact hsep)
    unfold walk
    simp only [Mem.listBucket, hb, hafter]
    rcases page_delim p mk hmk rest 0 [] ⟨[], [], false, []⟩ (by omega) hinvr (Or.inl rfl) hner with
      hres | ⟨l1, k, o, l2, cp, mp, c, t, nx, hobjs, hlm, hend, hres⟩
    · rw [hres]; simp
    · rw [hres]
      simp only [List.nil_append]
      cases hend with
      | content mp' =>
        have hcont : contentsOf p rest = contentsOf p (l1 ++ [(k, o)]) ++ contentsOf p l2 := by
          rw [hobjs, ← contentsOf_append]; simp [List.append_assoc]
        have hdisj := next_pages_disjoint_content p l1 l2 k o mp c (by rw [← hobjs]; exact hsepr) hlm
        have hpre : addAll [] (cpsOf p rest) = addAll [] (cpsOf p (l1 ++ [(k, o)])) ++ addAll [] (cpsOf p l2) := by
          have e : rest = (l1 ++ [(k, o)]) ++ l2 := by rw [hobjs]; simp [List.append_assoc]
          rw [e, cpsOf_append, addAll_append]
          have := addAll_disjoint (cpsOf p l2) (addAll [] (cpsOf p (l1 ++ [(k, o)]))) [] hdisj
          simpa using this
        cases l2 with
        | nil =>
          simp only [List.isEmpty_nil, Bool.not_true, Bool.false_eq_true, if_false]
          rw [hcont, hpre]; simp [contentsOf, cpsOf, addAll]
        | cons q qs =>
          simp only [List.isEmpty_cons, Bool.not_false, if_true]
          have hk : k ≠ [] := (hinv (k, o) (hmemr (k, o) (by rw [hobjs]; simp))).2
          have hobj2 : bk.objects = (pre ++ l1) ++ (k, o) :: (q :: qs) := by rw [hsplit, hobjs]; simp
          have hafter2 : afterMarker bk.objects k = q :: qs := by
            rw [hobj2]; exact GFS.Props.C04W.afterMarker_split _ _ k o hk (by rw [← hobj2]; exact hsorted)
          have hlen2 : (q :: qs).length < n := by rw [hobjs] at hlen; simp at hlen ⊢; omega
          obtain ⟨g1, g2, g3, g4⟩ := ih (q :: qs) (pre ++ l1 ++ [(k, o)]) k (by rw [hobj2]; simp) hafter2 hlen2
          refine ⟨?_, ?_, ?_, ?_⟩
          · rw [List.flatMap_cons, g1, hcont]
          · rw [List.flatMap_cons, g2, hpre]
          · cases hw : walk m b p mk n k with
            | nil => rw [hw] at g3; simp at g3
            | cons w ws => rw [hw] at g3; rw [List.getLast?_cons_cons]; exact g3
          · rw [hobjs]; simp at g4 ⊢; omega
      | cprefix mp' nm more hsk =>
        obtain ⟨cov, l3, hl2, hcov, hhead, hsk2⟩ := skipCovered_spec p mp l2 (fun q hq => hinvr q (by rw [hobjs]; simp [hq])) k
        rw [hsk] at hsk2
        simp only [Res.ok.injEq, Prod.mk.injEq] at hsk2
        obtain ⟨hnm, hmore⟩ := hsk2
        -- the covered objects add neither contents nor new prefixes
        have hcovC : contentsOf p cov = [] := by
          simp only [contentsOf, List.filterMap_eq_nil_iff]
          intro q hq
          cases hl : liveMatch p q with
          | none => rfl
          | some r =>
            obtain ⟨cp', mp'', c'⟩ := r
            have := liveMatch_match p q cp' mp'' c' hl
            rw [hcov q hq] at this
            simp only [Option.some.injEq, Prod.mk.injEq] at this
            rw [← this.1]
        have hkm := liveMatch_match p (k, o) true mp c hlm
        have hcovP : ∀ x ∈ cpsOf p cov, x ∈ addAll [] (cpsOf p (l1 ++ [(k, o)])) := by
          intro x hx
          obtain ⟨q, hq, hm⟩ := mem_cpsOf p cov x hx
          rw [hcov q hq] at hm
          simp only [Option.some.injEq, Prod.mk.injEq, true_and] at hm
          subst hm
          apply ((addAll_spec _ [] List.nodup_nil).2 mp).mpr
          right
          simp only [cpsOf_append, List.mem_append]
          right
          simp [cpsOf, hlm]
        have hcont : contentsOf p rest = contentsOf p (l1 ++ [(k, o)]) ++ contentsOf p l3 := by
          have e : rest = (l1 ++ [(k, o)]) ++ (cov ++ l3) := by rw [hobjs, hl2]; simp [List.append_assoc]
          rw [e, contentsOf_append, contentsOf_append (a := cov), hcovC]; simp
        have hdisj := next_pages_disjoint_prefix p l1 cov l3 k o mp c (by rw [← hl2, ← hobjs]; exact hsepr) hlm hcov hhead
        have hpre : addAll [] (cpsOf p rest) = addAll [] (cpsOf p (l1 ++ [(k, o)])) ++ addAll [] (cpsOf p l3) := by
          have e : rest = (l1 ++ [(k, o)]) ++ (cov ++ l3) := by rw [hobjs, hl2]; simp [List.append_assoc]
          rw [e, cpsOf_append, cpsOf_append (a := cov), addAll_append, addAll_append, addAll_noop _ _ hcovP]
          have := addAll_disjoint (cpsOf p l3) (addAll [] (cpsOf p (l1 ++ [(k, o)]))) [] hdisj
          simpa using this
        subst hmore
        cases l3 with
        | nil =>
          simp only [List.isEmpty_nil, Bool.not_true, Bool.false_eq_true, if_false]
          rw [hcont, hpre]; simp [contentsOf, cpsOf, addAll]
        | cons q qs =>
          simp only [List.isEmpty_cons, Bool.not_false, if_true]
          have hall : bk.objects = pre ++ (l1 ++ (k, o) :: (cov ++ (q :: qs))) := by rw [hsplit, hobjs, hl2]
          have hafter2 : afterMarker bk.objects nx = q :: qs := by
            rw [hnm]
            exact afterMarker_cov bk.objects pre l1 cov (q :: qs) k o hall hsorted (fun x hx => (hinv x hx).2)
          have hlen2 : (q :: qs).length < n := by rw [hobjs, hl2] at hlen; simp at hlen ⊢; omega
          obtain ⟨g1, g2, g3, g4⟩ := ih (q :: qs) (pre ++ l1 ++ (k, o) :: cov) nx (by rw [hall]; simp [List.append_assoc]) hafter2 hlen2
          refine ⟨?_, ?_, ?_, ?_⟩
          · rw [List.flatMap_cons, g1, hcont]
          · rw [List.flatMap_cons, g2, hpre]
          · cases hw : walk m b p mk n nx with
            | nil => rw [hw] at g3; simp at g3
            | cons w ws => rw [hw] at g3; rw [List.getLast?_cons_cons]; exact g3
          · rw [hobjs, hl2]; simp at g4 ⊢; omega

/-- on a sorted bucket whose keys are in the statement's domain, objects grouped under one
    common prefix are contiguous -/
theorem sep_of_sorted (hasP : Bool) (d : UInt8) (pfx : Bytes) (L : List (Key × Obj)) (hs : SMap.Sorted L)
    (hdom : ∀ q ∈ L, q.1.head? ≠ some d ∧ q.1.getLast? ≠ some d) (hp : pfx.head? ≠ some d) :
    Sep ⟨hasP, pfx, true, d⟩ L := by
  intro l1 q l2 hL x ⟨qa, hqa, hma⟩ ⟨qb, hqb, hmb⟩
  have hm : ∀ r ∈ L, (⟨hasP, pfx, true, d⟩ : Prefix).match_ r.1 = specD d r.1 pfx :=
    fun r hr => match_eq_entryOf hasP d pfx r.1 hp (hdom r hr).1 (hdom r hr).2
  have inL1 : ∀ r ∈ l1, r ∈ L := fun r hr => by rw [hL]; exact List.mem_append_left _ hr
  have inL2 : ∀ r ∈ l2, r ∈ L := fun r hr => by rw [hL]; simp [hr]
  have hqL : q ∈ L := by rw [hL]; simp
  rw [hL] at hs
  obtain ⟨_, h2, h3⟩ := List.pairwise_append.mp hs
  have hlt1 : lt qa.1 q.1 = true := h3 qa hqa q (List.mem_cons_self ..)
  have hlt2 : lt q.1 qb.1 = true := (List.pairwise_cons.mp h2).1 qb hqb
  have toSpec : ∀ r ∈ L, (⟨hasP, pfx, true, d⟩ : Prefix).match_ r.1 = some (true, x) → entryOf pfx (some d) r.1 = some (.cprefix x) := by
    intro r hr h
    rw [hm r hr] at h
    unfold specD at h
    cases he : entryOf pfx (some d) r.1 with
    | none => simp [he] at h
    | some e =>
      cases e with
      | content k => simp [he] at h
      | cprefix y => simp [he] at h; rw [h]
  have ea := toSpec qa (inL1 qa hqa) hma
  have eb := toSpec qb (inL2 qb hqb) hmb
  have eq := cprefix_between d pfx qa.1 q.1 qb.1 x ea eb hlt1 hlt2
  rw [hm q hqL]
  simp [specD, eq]

open GFS.Props.C04W in
/-- **walk_delim_exact**: for every delimiter byte, every prefix not starting with it, every page
    size of at least one and every bucket of the model that is sorted by key, holds a current
    version for every object and whose keys are non-empty and neither start nor end with the
    delimiter (the statement's domain; delete-marked keys included), the client's walk from the
    start — follow NextMarker while IsTruncated — terminates within (objects + 1) requests on an
    untruncated page; its pages' Contents concatenate to exactly the Contents of the unpaginated
    listing (every live key without a delimiter after the prefix, once, ascending) and its pages'
    CommonPrefixes concatenate to exactly the CommonPrefixes of the unpaginated listing: every
    common prefix is reported on exactly one page, exactly once. -/
theorem walk_delim_exact (m : Mem) (b : Bytes) (bk : Bucket) (hb : SMap.find m.buckets b = some bk)
    (hasP : Bool) (d : UInt8) (pfx : Bytes) (mk : Int) (hmk : 1 ≤ mk)
    (hsorted : SMap.Sorted bk.objects) (hinv : ∀ q ∈ bk.objects, q.2.data ≠ none ∧ q.1 ≠ [])
    (hdom : ∀ q ∈ bk.objects, q.1.head? ≠ some d ∧ q.1.getLast? ≠ some d) (hp : pfx.head? ≠ some d) :
    let p : Prefix := ⟨hasP, pfx, true, d⟩
    let pages := walk m b p mk (bk.objects.length + 1) []
    pages.flatMap (·.contents) = contentsOf p bk.objects ∧
    pages.flatMap (·.prefixes) = addAll [] (cpsOf p bk.objects) ∧
    pages.getLast?.map (·.truncated) = some false ∧
    pages.length ≤ bk.objects.length + 1 ∧
    m.listBucket b p [] 0 = .ok ⟨contentsOf p bk.objects, addAll [] (cpsOf p bk.objects), false, []⟩ := by
  intro p pages
  have hm : ∀ q ∈ bk.objects, p.match_ q.1 = specD d q.1 pfx :=
    fun q hq => match_eq_entryOf hasP d pfx q.1 hp (hdom q hq).1 (hdom q hq).2
  have hne : ∀ q ∈ bk.objects, ∀ mp, p.match_ q.1 = some (true, mp) → mp ≠ [] := by
    intro q hq mp h
    rw [hm q hq] at h
    unfold specD at h
    cases he : entryOf pfx (some d) q.1 with
    | none => simp [he] at h
    | some e =>
      cases e with
      | content k => simp [he] at h
      | cprefix x =>
        simp only [he, Option.some.injEq, Prod.mk.injEq, true_and] at h
        subst h
        exact cprefix_ne_nil pfx q.1 x d he
  have hsep := sep_of_sorted hasP d pfx bk.objects hsorted hdom hp
  obtain ⟨g1, g2, g3, g4⟩ := walk_delim_aux m b bk hb p mk hmk hsorted hinv hne hsep (bk.objects.length + 1)
    bk.objects [] [] (by simp) (by simp [afterMarker]) (by omega)
  refine ⟨g1, g2, g3, g4, ?_⟩
  simp only [Mem.listBucket, hb, afterMarker, List.isEmpty_nil, if_true]
  rw [listLoop_unpaged p bk.objects 0 [] ⟨[], [], false, []⟩ (fun q hq => (hinv q hq).1) (Or.inl rfl) hne]
  simp

/-! Non-vacuity: keys a/x, a/y (delete-marked), a/z, ab, b/w with delimiter '/', page size 1:
    the pages are [a/], [ab], [b/]. -/
def exBk : Bucket := ⟨.enabled, [([97, 47, 120], ⟨some ⟨1, false, [1], [9], []⟩, []⟩), ([97, 47, 121], ⟨some ⟨5, true, [], [], []⟩, [⟨2, false, [2], [8], []⟩]⟩),
  ([97, 47, 122], ⟨some ⟨3, false, [3], [7], []⟩, []⟩), ([97, 98], ⟨some ⟨4, false, [4, 4], [6], []⟩, []⟩), ([98, 47, 119], ⟨some ⟨6, false, [6], [5], []⟩, []⟩)]⟩
def exM : Mem := ⟨[([120], exBk)], 6⟩
example : ((GFS.Props.C04W.walk exM [120] ⟨false, [], true, 47⟩ 1 6 []).map (fun r => (r.contents.map (·.key), r.prefixes))) =
    [([], [[97, 47]]), ([[97, 98]], []), ([], [[98, 47]])] := by decide

end GFS.Props.C04D
