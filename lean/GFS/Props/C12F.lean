import GFS.Props.C12
set_option linter.unusedSimpArgs false
set_option linter.unusedVariables false
/-
  C12, the quantifier over fragmentations: for EVERY way the transport cuts the stream into
  reads, every sequence of caller buffer sizes and every way the stream ends, the decoder
  delivers a prefix of the payload, reports the end only after the whole payload, and never
  reports a framing error on a well-formed stream.
-/
namespace GFS.Props.C12F
open GFS GFS.Model.Chunk GFS.Spec.ChunkSpec GFS.Props.C12

def enc (cs : List Chunk) : Bytes := (cs.map encodeChunk).flatten
def pay (cs : List Chunk) : Bytes := (cs.map (·.payload)).flatten

/-- the stream ends with a zero-size chunk -/
def EndsZero (rem : List Chunk) : Prop := ∀ c, rem.getLast? = some c → c.payload = []

theorem endsZero_tail (c : Chunk) (r : List Chunk) (h : EndsZero (c :: r)) (hr : r ≠ []) : EndsZero r := by
  intro x hx
  apply h x
  cases r with
  | nil => exact absurd rfl hr
  | cons y ys => rw [List.getLast?_cons_cons]; exact hx
theorem endsZero_nil : EndsZero [] := by intro c hc; simp at hc
theorem endsZero_single (c : Chunk) (h : EndsZero [c]) : c.payload = [] := h c rfl

/-- the decoder stands in front of a chunk header (after the CRLF `tr` of the previous chunk,
    when there was one); `D` has been delivered so far, `P` is the whole payload -/
def AtHdr (P D : Bytes) (st : St) (input : Bytes) : Prop :=
  ∃ tr rem, st.remain = 0 ∧ input = tr ++ enc rem ∧ (if st.notFirst then tr.length = 2 else tr = []) ∧
    (∀ c ∈ rem, c.WF) ∧ D ++ pay rem = P ∧
    st.complete = false ∧ EndsZero rem ∧ (rem = [] → st.notFirst = true ∧ st.last = 0)

/-- the decoder is inside a chunk's payload with `p` still to deliver -/
def AtData (P D : Bytes) (st : St) (input : Bytes) : Prop :=
  ∃ p tr rem L, p ≠ [] ∧ st = ⟨p.length, true, L, false⟩ ∧ input = p ++ (tr ++ enc rem) ∧ tr.length = 2 ∧
    (∀ c ∈ rem, c.WF) ∧ D ++ (p ++ pay rem) = P ∧ rem ≠ [] ∧ EndsZero rem

def Inv (P D : Bytes) (st : St) (input : Bytes) : Prop := AtHdr P D st input ∨ AtData P D st input

/-- what a `Read` may do on a well-formed stream -/
structure Good (cfg : Cfg) (P D acc : Bytes) (r : ReadRes) : Prop where
  out : ∃ o, r.out = acc ++ o ∧
    (r.err = none → Inv P (D ++ o) r.st r.input) ∧
    (∀ e, r.err = some e → e = cfg.tail.toEnd ∧ D ++ o = P)
  unk : r.unk = false
  /-- when the end is reported, the terminating chunk has been read to its end -/
  fin : ∀ e, r.err = some e → r.st.complete = true

theorem inv_prefix (P D : Bytes) (st : St) (input : Bytes) (h : Inv P D st input) : D <+: P := by
  rcases h with ⟨tr, rem, _, _, _, _, hD, _⟩ | ⟨p, tr, rem, L, _, _, _, _, _, hD, _⟩
  · exact ⟨_, hD⟩
  · exact ⟨_, hD⟩

theorem skip_append (tr X : Bytes) (n : Nat) (h : tr.length = n) : skip n (tr ++ X) = some X := by
  unfold skip
  have : n ≤ (tr ++ X).length := by simp; omega
  simp [this, ← h]

/-- the state after a chunk header has been read -/
theorem hdr_inv (P D : Bytes) (c : Chunk) (rem' : List Chunk) (hwfc : c.WF) (hwf' : ∀ x ∈ rem', x.WF)
    (hD : D ++ pay (c :: rem') = P) (hez : EndsZero (c :: rem')) :
    Inv P D ⟨(hexValue c.digits : Int), true, (hexValue c.digits : Int), false⟩ (c.payload ++ (c.trailer ++ enc rem')) := by
  obtain ⟨hne, hall, hval, hmax, hext, htrl⟩ := hwfc
  by_cases hpe : c.payload = []
  · left
    refine ⟨c.trailer, rem', by simp [hval, hpe], by simp [hpe], by simp [htrl], hwf', ?_, rfl, ?_, ?_⟩
    · simpa [pay, hpe] using hD
    · by_cases hr0 : rem' = []
      · rw [hr0]; exact endsZero_nil
      · exact endsZero_tail c rem' hez hr0
    · intro _; exact ⟨rfl, by simp [hval, hpe]⟩
  · right
    have hr0 : rem' ≠ [] := by
      intro e; subst e; exact hpe (endsZero_single c hez)
    refine ⟨c.payload, c.trailer, rem', (hexValue c.digits : Int), hpe, by simp [hval], rfl, htrl, hwf', ?_, hr0, endsZero_tail c rem' hez hr0⟩
    simpa [pay] using hD

theorem read_good (cfg : Cfg) (P : Bytes) (fuel : Nat) :
    ∀ (st : St) (input : Bytes) (want : Nat) (acc D : Bytes), Inv P D st input →
      Good cfg P D acc (GFS.Model.Chunk.read cfg fuel st input want acc) := by
  induction fuel with
  | zero =>
    intro st input want acc D h
    exact ⟨⟨[], by simp [GFS.Model.Chunk.read], by intro _; simpa [GFS.Model.Chunk.read] using h, by intro e he; simp [GFS.Model.Chunk.read] at he⟩, by simp [GFS.Model.Chunk.read],
      by intro e he; simp [GFS.Model.Chunk.read] at he⟩
  | succ fuel ih =>
    intro st input want acc D h
    unfold GFS.Model.Chunk.read
    by_cases hw : want = 0
    · simp only [hw, if_true]
      exact ⟨⟨[], by simp, by intro _; simpa using h, by intro e he; simp at he⟩, rfl, by intro e he; simp at he⟩
    · simp only [hw, if_false]
      rcases h with ⟨tr, rem, hr, hin, htr, hwf, hD, hcf, hez, hlast⟩ | ⟨p, tr, rem, L, hp, hst, hin, htr, hwf, hD, hrne, hez⟩
      · -- header branch
        have hr' : ¬ st.remain > 0 := by omega
        simp only [hr', if_false]
        have hat : (if st.notFirst = true then skip 2 input else some input) = some (enc rem) := by
          by_cases hn : st.notFirst = true
          · simp only [hn, if_true] at htr ⊢
            rw [hin]; exact skip_append tr _ 2 htr
          · simp only [hn, if_false] at htr ⊢
            rw [hin, htr]; simp
        rw [hat]
        cases rem with
        | nil =>
          -- nothing follows: the end of the stream, everything has been delivered
          obtain ⟨hnf, hl0⟩ := hlast rfl
          simp only [enc, List.map_nil, List.flatten_nil, scanHexSemi, skipScanSpace]
          refine ⟨⟨[], by simp, by intro he; simp at he, ?_⟩, rfl, ?_⟩
          · intro e he
            simp only [Option.some.injEq] at he
            refine ⟨he.symm, ?_⟩
            simpa [pay] using hD
          · intro e _
            simp [hnf, hl0]
        | cons c rem' =>
          obtain ⟨hne, hall, hval, hmax, hext, htrl⟩ := hwf c (List.mem_cons_self ..)
          have henc : enc (c :: rem') = c.digits ++ 59 :: (c.ext ++ (c.payload ++ (c.trailer ++ enc rem'))) := by
            simp [enc, encodeChunk, List.append_assoc]
          have hscan := scan_wellformed_header c.digits (c.ext ++ (c.payload ++ (c.trailer ++ enc rem'))) hne hall
            (by rw [hval]; exact hmax)
          rw [henc]
          simp only [hscan, skip_append c.ext _ 82 hext]
          have hwf' : ∀ c ∈ rem', c.WF := fun x hx => hwf x (List.mem_cons_of_mem _ hx)
          apply ih
          exact hdr_inv P D c rem' (hwf c (List.mem_cons_self ..)) hwf' hD hez
      · -- data branch
        subst hst
        have hpos : (p.length : Int) > 0 := by
          have : 0 < p.length := List.length_pos_iff.mpr hp
          omega
        simp only [hpos, if_true]
        obtain ⟨x, xs, hx⟩ := List.exists_cons_of_ne_nil hp
        have hin' : input = x :: (xs ++ (tr ++ enc rem)) := by rw [hin, hx]; rfl
        rw [hin']
        simp only
        rw [← hin']
        -- the number of bytes this inner read returns
        generalize hk : (if (p.length : Int) > want then want else (p.length : Int).toNat) = k
        have hkp : k ≤ p.length := by
          rw [← hk]; split <;> omega
        have hk0 : 0 < k := by
          rw [← hk]; split
          · omega
          · have : 0 < p.length := List.length_pos_iff.mpr hp
            omega
        have hkw : k ≤ want := by
          rw [← hk]; split <;> omega
        generalize hn : readLen cfg.cut input.length k = n
        have hnk : n ≤ k := by rw [← hn]; exact (readLen_le _ _ _).1
        have hn0 : 0 < n := by
          rw [← hn]; apply readLen_pos _ _ _ _ hk0
          rw [hin']; simp
        have hnp : n ≤ p.length := by omega
        have htake : input.take n = p.take n := by
          rw [hin, List.take_append_of_le_length hnp]
        have hdrop : input.drop n = p.drop n ++ (tr ++ enc rem) := by
          rw [hin, List.drop_append_of_le_length hnp]
        have hrest : (input.drop n).isEmpty = false := by
          rw [hdrop]
          cases tr with
          | nil => simp at htr
          | cons t ts => simp
        simp only [hrest, Bool.false_and, Bool.false_eq_true, if_false]
        have hinv : Inv P (D ++ p.take n) ⟨(p.length : Int) - n, true, L, false⟩ (input.drop n) := by
          by_cases hfin : n = p.length
          · left
            refine ⟨tr, rem, by simp [hfin], by rw [hdrop, hfin]; simp, by simp [htr], hwf, ?_, rfl, hez, fun e => absurd e hrne⟩
            rw [hfin, List.take_length]
            simpa [List.append_assoc] using hD
          · right
            have hlt : n < p.length := by omega
            refine ⟨p.drop n, tr, rem, L, ?_, ?_, hdrop, htr, hwf, ?_, hrne, hez⟩
            · intro he
              have := congrArg List.length he
              simp at this; omega
            · simp only [List.length_drop]
              congr 1
              omega
            · rw [List.append_assoc, ← List.append_assoc (p.take n), List.take_append_drop]
              exact hD
        have := ih ⟨(p.length : Int) - n, true, L, false⟩ (input.drop n) (want - n) (acc ++ input.take n) (D ++ p.take n) hinv
        rw [htake] at this ⊢
        obtain ⟨⟨o, ho, h1, h2⟩, hu, hf⟩ := this
        refine ⟨⟨p.take n ++ o, by rw [ho]; simp [List.append_assoc], ?_, ?_⟩, hu, hf⟩
        · intro he; simpa [List.append_assoc] using h1 he
        · intro e he; simpa [List.append_assoc] using h2 e he

theorem enc_cons_length (c : Chunk) (rem : List Chunk) (h : c.WF) :
    (enc (c :: rem)).length ≥ (c.payload ++ (c.trailer ++ enc rem)).length + 84 := by
  obtain ⟨hne, _, _, _, hext, _⟩ := h
  have : 0 < c.digits.length := List.length_pos_iff.mpr hne
  simp [enc, encodeChunk]
  omega

/-- progress: with the fuel `consume` supplies, a `Read` into a non-empty buffer that returns
    without error has delivered at least one byte -/
theorem read_progress (cfg : Cfg) (P : Bytes) (fuel : Nat) :
    ∀ (st : St) (input : Bytes) (want : Nat) (acc D : Bytes), Inv P D st input →
      input.length + 2 ≤ fuel → 0 < want →
      (GFS.Model.Chunk.read cfg fuel st input want acc).err = none →
      acc.length < (GFS.Model.Chunk.read cfg fuel st input want acc).out.length := by
  induction fuel with
  | zero => intro st input want acc D h hf; omega
  | succ fuel ih =>
    intro st input want acc D h hf hw0
    have hw : ¬ want = 0 := by omega
    rcases h with ⟨tr, rem, hr, hin, htr, hwf, hD, hcf, hez, hlast⟩ | ⟨p, tr, rem, L, hp, hst, hin, htr, hwf, hD, hrne, hez⟩
    · unfold GFS.Model.Chunk.read
      simp only [hw, if_false]
      have hr' : ¬ st.remain > 0 := by omega
      simp only [hr', if_false]
      have hat : (if st.notFirst = true then skip 2 input else some input) = some (enc rem) := by
        by_cases hn : st.notFirst = true
        · simp only [hn, if_true] at htr ⊢
          rw [hin]; exact skip_append tr _ 2 htr
        · simp only [hn, if_false] at htr ⊢
          rw [hin, htr]; simp
      rw [hat]
      cases rem with
      | nil =>
        simp only [enc, List.map_nil, List.flatten_nil, scanHexSemi, skipScanSpace]
        intro he; simp at he
      | cons c rem' =>
        obtain ⟨hne, hall, hval, hmax, hext, htrl⟩ := hwf c (List.mem_cons_self ..)
        have henc : enc (c :: rem') = c.digits ++ 59 :: (c.ext ++ (c.payload ++ (c.trailer ++ enc rem'))) := by
          simp [enc, encodeChunk, List.append_assoc]
        have hscan := scan_wellformed_header c.digits (c.ext ++ (c.payload ++ (c.trailer ++ enc rem'))) hne hall
          (by rw [hval]; exact hmax)
        have hlen := enc_cons_length c rem' (hwf c (List.mem_cons_self ..))
        rw [henc]
        simp only [hscan, skip_append c.ext _ 82 hext]
        have hwf' : ∀ c ∈ rem', c.WF := fun x hx => hwf x (List.mem_cons_of_mem _ hx)
        have hinv := hdr_inv P D c rem' (hwf c (List.mem_cons_self ..)) hwf' hD hez
        apply ih _ _ _ _ D hinv _ hw0
        have : input.length ≥ (enc (c :: rem')).length := by rw [hin]; simp
        omega
    · -- data branch: the first inner read already delivers a byte
      subst hst
      intro he
      have hgood := read_good cfg P (fuel + 1) ⟨p.length, true, L, false⟩ input want acc D
        (Or.inr ⟨p, tr, rem, L, hp, rfl, hin, htr, hwf, hD, hrne, hez⟩)
      revert he hgood
      unfold GFS.Model.Chunk.read
      simp only [hw, if_false]
      have hpos : (p.length : Int) > 0 := by
        have : 0 < p.length := List.length_pos_iff.mpr hp
        omega
      simp only [hpos, if_true]
      obtain ⟨x, xs, hx⟩ := List.exists_cons_of_ne_nil hp
      have hin' : input = x :: (xs ++ (tr ++ enc rem)) := by rw [hin, hx]; rfl
      rw [hin']
      simp only
      rw [← hin']
      generalize hk : (if (p.length : Int) > want then want else (p.length : Int).toNat) = k
      have hkp : k ≤ p.length := by
        rw [← hk]; split <;> omega
      have hk0 : 0 < k := by
        rw [← hk]; split
        · omega
        · have : 0 < p.length := List.length_pos_iff.mpr hp
          omega
      generalize hn : readLen cfg.cut input.length k = n
      have hnk : n ≤ k := by rw [← hn]; exact (readLen_le _ _ _).1
      have hn0 : 0 < n := by
        rw [← hn]; apply readLen_pos _ _ _ _ hk0
        rw [hin']; simp
      have hnp : n ≤ p.length := by omega
      have hdrop : input.drop n = p.drop n ++ (tr ++ enc rem) := by
        rw [hin, List.drop_append_of_le_length hnp]
      have hrest : (input.drop n).isEmpty = false := by
        rw [hdrop]
        cases tr with
        | nil => simp at htr
        | cons t ts => simp
      simp only [hrest, Bool.false_and, Bool.false_eq_true, if_false]
      have htl : (input.take n).length = n := by
        rw [List.length_take]; rw [hin]; simp; omega
      -- whatever the rest of the loop does, its output extends acc ++ got
      have hinv : Inv P (D ++ p.take n) ⟨(p.length : Int) - n, true, L, false⟩ (input.drop n) := by
        by_cases hfin : n = p.length
        · left
          refine ⟨tr, rem, by simp [hfin], by rw [hdrop, hfin]; simp, by simp [htr], hwf, ?_, rfl, hez, fun e => absurd e hrne⟩
          rw [hfin, List.take_length]
          simpa [List.append_assoc] using hD
        · right
          refine ⟨p.drop n, tr, rem, L, ?_, ?_, hdrop, htr, hwf, ?_, hrne, hez⟩
          · intro he
            have := congrArg List.length he
            simp at this; omega
          · simp only [List.length_drop]
            congr 1
            omega
          · rw [List.append_assoc, ← List.append_assoc (p.take n), List.take_append_drop]
            exact hD
      obtain ⟨⟨o, ho, _, _⟩, _⟩ := read_good cfg P fuel ⟨(p.length : Int) - n, true, L, false⟩ (input.drop n) (want - n)
        (acc ++ input.take n) (D ++ p.take n) hinv
      intro _ _
      rw [ho]
      simp only [List.length_append, htl]
      omega

/-- on a well-formed stream the completeness check of `Read` never fires -/
theorem readF_eq (cfg : Cfg) (P D acc : Bytes) (fuel : Nat) (st : St) (input : Bytes) (want : Nat)
    (h : Good cfg P D acc (GFS.Model.Chunk.read cfg fuel st input want acc)) :
    readF cfg fuel st input want acc = GFS.Model.Chunk.read cfg fuel st input want acc := by
  unfold readF
  simp only
  split
  · rename_i hc
    have := h.fin _ hc.1
    rw [hc.2] at this; cases this
  · rfl

/-- the whole-stream statement for the consumer loop -/
theorem consume_good (cfg : Cfg) (P : Bytes) (bufs : List Nat) :
    ∀ (st : St) (input acc D : Bytes), Inv P D st input →
      let r := consume cfg bufs st input acc
      ∃ o, r.1 = acc ++ o ∧ r.2.2 = false ∧
        (r.2.1 = none → ∃ st' input', Inv P (D ++ o) st' input') ∧
        (∀ e, r.2.1 = some e → e = cfg.tail.toEnd ∧ D ++ o = P) := by
  induction bufs with
  | nil =>
    intro st input acc D h
    exact ⟨[], by simp [consume], by simp [consume], by intro _; exact ⟨st, input, by simpa using h⟩,
      by intro e he; simp [consume] at he⟩
  | cons b bs ih =>
    intro st input acc D h
    have hg := read_good cfg P (input.length + 2) st input b [] D h
    have hg' := hg
    obtain ⟨⟨o, ho, h1, h2⟩, hu, _⟩ := hg'
    simp only [List.nil_append] at ho
    simp only [consume, readF_eq cfg P D [] _ st input b hg]
    cases he : (GFS.Model.Chunk.read cfg (input.length + 2) st input b []).err with
    | some e =>
      simp only
      obtain ⟨e1, e2⟩ := h2 e he
      exact ⟨o, by rw [ho], hu, by intro hn; simp at hn, by intro e' he'; simp at he'; subst he'; exact ⟨e1, e2⟩⟩
    | none =>
      simp only
      have hinv := h1 he
      obtain ⟨o2, g1, g2, g3, g4⟩ := ih _ _ (acc ++ (GFS.Model.Chunk.read cfg (input.length + 2) st input b []).out) (D ++ o) hinv
      refine ⟨o ++ o2, ?_, g2, ?_, ?_⟩
      · rw [g1, ho]; simp [List.append_assoc]
      · intro hn
        obtain ⟨st', input', hh⟩ := g3 hn
        exact ⟨st', input', by simpa [List.append_assoc] using hh⟩
      · intro e he'
        obtain ⟨a, b'⟩ := g4 e he'
        exact ⟨a, by simpa [List.append_assoc] using b'⟩

/-- **decode_any_fragmentation**: take ANY list of chunks, each with a size field of hex digits
    (either case, leading zeros) equal to the length of its payload, an 82-byte extension and a
    2-byte trailer — in particular every well-formed aws-chunked stream with its final zero-size
    chunk — ANY way the transport fragments the stream into reads (`cfg.cut`), ANY sequence of
    caller buffer sizes, and ANY way the stream ends (EOF or a transport error, reported with the
    last data or after it).  Then the decoder
    * never meets a header it cannot follow and never reports a framing error,
    * has delivered, at every moment, a prefix of the concatenation of the chunk payloads,
    * reports the end of the stream only when it has delivered exactly that concatenation, and
      the end it reports is the transport's own (EOF for EOF). -/
theorem decode_any_fragmentation (cfg : Cfg) (chunks : List Chunk) (hwf : ∀ c ∈ chunks, c.WF)
    (hne : chunks ≠ []) (hz : EndsZero chunks) (bufs : List Nat) :
    let r := decode cfg bufs (enc chunks)
    r.2.2 = false ∧ r.1 <+: pay chunks ∧
    (∀ e, r.2.1 = some e → e = cfg.tail.toEnd ∧ r.1 = pay chunks) := by
  have hinit : Inv (pay chunks) [] St.init (enc chunks) :=
    Or.inl ⟨[], chunks, rfl, by simp, by simp [St.init], hwf, by simp, rfl, hz, fun e => absurd e hne⟩
  obtain ⟨o, h1, h2, h3, h4⟩ := consume_good cfg (pay chunks) bufs St.init (enc chunks) [] [] hinit
  simp only [List.nil_append] at h1 h3 h4
  unfold decode
  refine ⟨h2, ?_, ?_⟩
  · rw [h1]
    cases he : (consume cfg bufs St.init (enc chunks) []).2.1 with
    | none =>
      obtain ⟨st', input', hh⟩ := h3 he
      exact inv_prefix _ _ _ _ hh
    | some e =>
      rw [(h4 e he).2]
      exact List.prefix_refl _
  · intro e he
    rw [h1]
    exact h4 e he

/-- a consumer that keeps reading into non-empty buffers reaches the end of the stream after at
    most (payload length + 1) reads -/
theorem consume_completes (cfg : Cfg) (P : Bytes) (bufs : List Nat) :
    ∀ (st : St) (input acc D : Bytes), Inv P D st input → (∀ b ∈ bufs, 0 < b) →
      P.length - D.length < bufs.length → (consume cfg bufs st input acc).2.1 ≠ none := by
  induction bufs with
  | nil => intro st input acc D h hb hl; simp at hl
  | cons b bs ih =>
    intro st input acc D h hb hl
    have hg := read_good cfg P (input.length + 2) st input b [] D h
    have hg' := hg
    obtain ⟨⟨o, ho, h1, h2⟩, hu, _⟩ := hg'
    have hprog := read_progress cfg P (input.length + 2) st input b [] D h (Nat.le_refl _) (hb b (List.mem_cons_self ..))
    simp only [consume, readF_eq cfg P D [] _ st input b hg]
    cases he : (GFS.Model.Chunk.read cfg (input.length + 2) st input b []).err with
    | some e => simp
    | none =>
      simp only
      have hinv := h1 he
      have hpre := inv_prefix _ _ _ _ hinv
      have hol : 0 < o.length := by
        have := hprog he
        rw [ho] at this
        simpa using this
      apply ih _ _ _ (D ++ o) hinv (fun x hx => hb x (List.mem_cons_of_mem _ hx))
      have := hpre.length_le
      simp only [List.length_append, List.length_cons] at this hl ⊢
      omega

/-- **decode_complete**: reading a well-formed chunk list to the end — with any fragmentation,
    any non-empty buffer sizes, at least (payload length + 1) reads — delivers exactly the
    concatenation of the payloads and ends with the transport's own end of stream. -/
theorem decode_complete (cfg : Cfg) (chunks : List Chunk) (hwf : ∀ c ∈ chunks, c.WF)
    (hne : chunks ≠ []) (hz : EndsZero chunks) (bufs : List Nat)
    (hb : ∀ b ∈ bufs, 0 < b) (hn : (pay chunks).length < bufs.length) :
    decode cfg bufs (enc chunks) = (pay chunks, some cfg.tail.toEnd, false) := by
  have hinit : Inv (pay chunks) [] St.init (enc chunks) :=
    Or.inl ⟨[], chunks, rfl, by simp, by simp [St.init], hwf, by simp, rfl, hz, fun e => absurd e hne⟩
  have hc := consume_completes cfg (pay chunks) bufs St.init (enc chunks) [] [] hinit hb (by simpa using hn)
  obtain ⟨h1, h2, h3⟩ := decode_any_fragmentation cfg chunks hwf hne hz bufs
  unfold decode at *
  cases he : (consume cfg bufs St.init (enc chunks) []).2.1 with
  | none => exact absurd he hc
  | some e =>
    obtain ⟨e1, e2⟩ := h3 e he
    have : consume cfg bufs St.init (enc chunks) [] =
        ((consume cfg bufs St.init (enc chunks) []).1, (consume cfg bufs St.init (enc chunks) []).2.1,
          (consume cfg bufs St.init (enc chunks) []).2.2) := rfl
    rw [this, e2, he, h1, e1]

/-- the same for the stream shape the statement names (data chunks + final zero-size chunk) -/
theorem decode_wellformed_stream (cfg : Cfg) (cs : List Chunk) (final : Chunk) (hwf : StreamWF cs final)
    (bufs : List Nat) :
    let r := decode cfg bufs (encode cs final)
    r.2.2 = false ∧ r.1 <+: payload cs ∧
    (∀ e, r.2.1 = some e → e = cfg.tail.toEnd ∧ r.1 = payload cs) := by
  have henc : encode cs final = enc (cs ++ [final]) := by simp [encode, enc]
  have hpay : pay (cs ++ [final]) = payload cs := by simp [pay, payload, hwf.2.2]
  have hall : ∀ c ∈ cs ++ [final], c.WF := by
    intro c hc
    rcases List.mem_append.mp hc with h | h
    · exact (hwf.1 c h).1
    · simp at h; subst h; exact hwf.2.1
  have := decode_any_fragmentation cfg (cs ++ [final]) hall (by simp) (by intro c hc; simp at hc; subst hc; exact hwf.2.2) bufs
  rw [henc, ← hpay]
  exact this

/-! Non-vacuity: a two-chunk stream ("3;"+ext+"abc"+CRLF, "0;"+ext+CRLF) cut after every byte,
    read into 2-byte buffers, with the transport failing at the end. -/
def exExt : Bytes := List.replicate 82 120
def exChunks : List Chunk := [⟨[51], exExt, [97, 98, 99], [13, 10]⟩, ⟨[48], exExt, [], [13, 10]⟩]
example : ∀ c ∈ exChunks, c.WF := by decide
set_option maxRecDepth 100000 in
example : decode ⟨fun _ => true, .fail, true⟩ [2, 2, 2, 2] (enc exChunks) = ([97, 98, 99], some .fail, false) := by
  decide +kernel

end GFS.Props.C12F
