import GFS.Props.C09F
import GFS.Model.FrontMp
set_option linter.unusedSimpArgs false
set_option linter.unusedVariables false
/-
  C09 at handler level, multipart included: the whole modelled surface over the server state
  (store + multipart bookkeeping).
-/
namespace GFS.Props.C09M
open GFS GFS.Model GFS.SMapL GFS.Props.C09 GFS.Props.C09F

inductive SReq where
  | plain (r : Req)
  | initiate (b : Bytes) (k : Key) (md : Meta)
  | uploadPart (b : Bytes) (k : Key) (id : Nat) (rq : PartReq)
  | complete (b : Bytes) (k : Key) (id : Nat) (listed : List (Int × Bytes))
  | abort (b : Bytes) (k : Key) (id : Nat)
  | listParts (b : Bytes) (k : Key) (id : Nat) (marker : Nat) (limit : Int)
  | listUploads (b : Bytes) (p : Prefix) (km : Bytes) (im : Option Nat) (limit : Int)

/-- an answer is a panic -/
def isPanicR {α : Type} : Res α → Bool
  | .panic _ => true
  | _ => false

/-- (new state, did the handler panic) -/
def shandle (md5 : Bytes → Bytes) (cfg : Cfg) (ucfg : UploadCfg) (s : Srv) : SReq → Srv × Bool
  | .plain r => let a := handle md5 cfg s.mem r; (⟨a.1, s.upl⟩, match a.2 with | .panic _ => true | _ => false)
  | .initiate b k md => let a := Front.initiateUpload cfg s b k md; (a.1, isPanicR a.2)
  | .uploadPart b k id rq => let a := Front.uploadPartSrv md5 ucfg s b k id rq; (a.1, isPanicR a.2)
  | .complete b k id listed => let a := Front.completeUpload md5 s b k id listed; (a.1, isPanicR a.2)
  | .abort b k id => let a := Front.abortUpload s b k id; (a.1, isPanicR a.2)
  | .listParts b k id marker limit => let a := Front.listPartsReq cfg s b k id marker limit; (a.1, isPanicR a.2)
  | .listUploads b p km im limit => let a := Front.listUploadsReq cfg s b p km im limit; (a.1, isPanicR a.2)

theorem get_noPanic (u : Upl) (b : Bytes) (k : Key) (id : Nat) : isPanicR (u.get b k id) = false := by
  unfold Upl.get
  cases SMap.find u.buckets b with
  | none => rfl
  | some bu =>
    simp only
    cases bu.find id with
    | none => rfl
    | some m => simp only; split <;> rfl

theorem checkParts_noPanic (parts : List (Option Part)) (listed : List (Int × Bytes)) :
    isPanicR (Upl.checkParts parts listed) = false := by
  induction listed with
  | nil => rfl
  | cons q rest ih =>
    obtain ⟨n, etag⟩ := q
    unfold Upl.checkParts
    split
    · rfl
    · split
      · split
        · rfl
        · cases hc : Upl.checkParts parts rest with
          | ok ps => rfl
          | err c => rfl
          | panic s => rw [hc] at ih; simp [isPanicR] at ih
      · rfl

theorem partChecks_noPanic (md5 : Bytes → Bytes) (ucfg : UploadCfg) (rq : PartReq) :
    isPanicR (Front.partChecks md5 ucfg rq) = false := by
  unfold Front.partChecks
  cases rq.partNumber with
  | none => rfl
  | some n =>
    simp only
    split
    · rfl
    · cases rq.contentLength.bind parseInt64 with
      | none => rfl
      | some sz =>
        simp only
        split
        · rfl
        · split
          · rfl
          · split
            · rfl
            · split
              · rfl
              · split <;> rfl

theorem shandle_good (md5 : Bytes → Bytes) (cfg : Cfg) (ucfg : UploadCfg) (s : Srv) (r : SReq) (h : C09.Inv s.mem) :
    C09.Inv (shandle md5 cfg ucfg s r).1.mem ∧ (shandle md5 cfg ucfg s r).2 = false := by
  cases r with
  | plain q =>
    obtain ⟨h1, h2⟩ := handle_good md5 cfg s.mem q h
    refine ⟨h1, ?_⟩
    simp only [shandle]
    cases ho : (handle md5 cfg s.mem q).2 with
    | panic p => exact absurd ho (h2 p)
    | _ => rfl
  | initiate b k md =>
    obtain ⟨e1, e2⟩ := ensure_good cfg s.mem b h
    simp only [shandle, Front.initiateUpload]
    cases he : Front.ensureBucket cfg s.mem b with
    | mk m r =>
      rw [he] at e1 e2
      cases r with
      | ok u => exact ⟨e1, rfl⟩
      | err c => exact ⟨e1, rfl⟩
      | panic p => exact absurd rfl (e2 p)
  | uploadPart b k id rq =>
    refine ⟨h, ?_⟩
    simp only [shandle, Front.uploadPartSrv, Front.uploadPartReq]
    cases hc : Front.partChecks md5 ucfg rq with
    | err c => rfl
    | panic p =>
      have := partChecks_noPanic md5 ucfg rq
      rw [hc] at this; simp [isPanicR] at this
    | ok v =>
      obtain ⟨n, size⟩ := v
      simp only [Upl.uploadPart]
      split
      · rfl
      · split
        · rfl
        · have := get_noPanic s.upl b k id
          cases hg : s.upl.get b k id with
          | ok w => rfl
          | err c => rfl
          | panic p => rw [hg] at this; simp [isPanicR] at this
  | complete b k id listed =>
    simp only [shandle, Front.completeUpload, Upl.complete]
    have := get_noPanic s.upl b k id
    cases hg : s.upl.get b k id with
    | err c => exact ⟨h, rfl⟩
    | panic p => rw [hg] at this; simp [isPanicR] at this
    | ok w =>
      obtain ⟨bu, m⟩ := w
      simp only
      have hv : isPanicR (Upl.validate m listed) = false := by
        unfold Upl.validate
        split
        · rfl
        · split
          · rfl
          · exact checkParts_noPanic _ _
      cases hval : Upl.validate m listed with
      | err c => exact ⟨h, rfl⟩
      | panic p => rw [hval] at hv; simp [isPanicR] at hv
      | ok ps =>
        simp only
        have hp := put_preserves md5 s.mem b k m.md (ps.map (·.body)).flatten h
        have hn := put_noPanic md5 s.mem b k m.md (ps.map (·.body)).flatten
        cases hx : s.mem.put md5 b k m.md (ps.map (·.body)).flatten with
        | mk m2 r =>
          rw [hx] at hp hn
          cases r with
          | ok v => exact ⟨hp, rfl⟩
          | err c => exact ⟨hp, rfl⟩
          | panic p => exact absurd rfl (hn p)
  | abort b k id =>
    refine ⟨h, ?_⟩
    simp only [shandle, Front.abortUpload, Upl.abort]
    have := get_noPanic s.upl b k id
    cases hg : s.upl.get b k id with
    | ok w => rfl
    | err c => rfl
    | panic p => rw [hg] at this; simp [isPanicR] at this
  | listParts b k id marker limit =>
    obtain ⟨e1, e2⟩ := ensure_good cfg s.mem b h
    simp only [shandle, Front.listPartsReq]
    cases he : Front.ensureBucket cfg s.mem b with
    | mk m r =>
      rw [he] at e1 e2
      cases r with
      | ok u =>
        refine ⟨e1, ?_⟩
        simp only [Upl.listParts]
        have := get_noPanic s.upl b k id
        cases hg : s.upl.get b k id with
        | ok w => rfl
        | err c => rfl
        | panic p => rw [hg] at this; simp [isPanicR] at this
      | err c => exact ⟨e1, rfl⟩
      | panic p => exact absurd rfl (e2 p)
  | listUploads b p km im limit =>
    obtain ⟨e1, e2⟩ := ensure_good cfg s.mem b h
    simp only [shandle, Front.listUploadsReq]
    cases he : Front.ensureBucket cfg s.mem b with
    | mk m r =>
      rw [he] at e1 e2
      cases r with
      | ok u =>
        refine ⟨e1, ?_⟩
        simp only [Upl.listUploads]
        cases SMap.find s.upl.buckets b <;> rfl
      | err c => exact ⟨e1, rfl⟩
      | panic p => exact absurd rfl (e2 p)

def sserve (md5 : Bytes → Bytes) (cfg : Cfg) (ucfg : UploadCfg) (s : Srv) : List SReq → Srv × List Bool
  | [] => (s, [])
  | r :: rs => let a := shandle md5 cfg ucfg s r; let rest := sserve md5 cfg ucfg a.1 rs; (rest.1, a.2 :: rest.2)

/-- **server_never_panics**: every finite sequence of requests of the whole modelled surface —
    bucket, object, version, listing, versioning AND multipart requests (initiate, upload part with
    any part number / Content-Length / Content-MD5, complete with any part list, abort, list parts,
    list uploads) — with arbitrary parameters, in every configuration, from the empty server, is
    answered without a single panic, and the store invariant holds afterwards. -/
theorem server_never_panics (md5 : Bytes → Bytes) (cfg : Cfg) (ucfg : UploadCfg) (reqs : List SReq) :
    ∀ s : Srv, C09.Inv s.mem →
      C09.Inv (sserve md5 cfg ucfg s reqs).1.mem ∧ ∀ x ∈ (sserve md5 cfg ucfg s reqs).2, x = false := by
  induction reqs with
  | nil => intro s h; exact ⟨h, by intro x hx; simp [sserve] at hx⟩
  | cons r rs ih =>
    intro s h
    obtain ⟨h1, h2⟩ := shandle_good md5 cfg ucfg s r h
    obtain ⟨g1, g2⟩ := ih _ h1
    refine ⟨g1, ?_⟩
    intro x hx
    simp only [sserve, List.mem_cons] at hx
    rcases hx with rfl | hx
    · exact h2
    · exact g2 x hx

example : (sserve id {} {} ⟨Mem.empty, Upl.empty⟩ [.plain (.createBucket [98, 107, 116]), .initiate [98, 107, 116] [107] [],
    .uploadPart [98, 107, 116] [107] 1 ⟨some 3, some [49], .absent, [7]⟩, .complete [98, 107, 116] [107] 1 [(3, [1]), (2, [])],
    .complete [98, 107, 116] [107] 9 [], .listParts [98, 107, 116] [107] 1 99 (-1), .abort [98, 107, 116] [107] 1,
    .plain (.getObject [98, 107, 116] [107] none false)]).2 = [false, false, false, false, false, false, false, false] := by decide

end GFS.Props.C09M
