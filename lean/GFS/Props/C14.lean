import GFS.Model.Uploader
set_option linter.unusedSimpArgs false
set_option linter.unusedVariables false
/-
  C14 — multipart bookkeeping listings are exact and page completely (ListParts).
-/
namespace GFS.Props.C14
open GFS GFS.Model GFS.Model.Upl

/-- the held parts of a slice whose first element has part number `n`, with their true numbers -/
def held : List (Option Part) → Nat → List PartItem
  | [], _ => []
  | none :: rest, n => held rest (n + 1)
  | some p :: rest, n => ⟨n, p.body.length, p.hash⟩ :: held rest (n + 1)

/-- **listParts_exact**: with a limit above the number of held parts, the listing loop returns
    exactly the held parts with their true part numbers, sizes and digests, in ascending
    part-number order, and does not report truncation. -/
theorem listParts_exact (limit : Int) (parts : List (Option Part)) (n : Nat) (cnt : Int) (acc : List PartItem)
    (h : cnt + (held parts n).length ≤ limit) :
    listPartsLoop limit parts n cnt acc = ⟨acc ++ held parts n, false, 0⟩ := by
  induction parts generalizing n cnt acc with
  | nil => simp [listPartsLoop, held]
  | cons p rest ih =>
    cases p with
    | none =>
      simp only [listPartsLoop, held] at h ⊢
      exact ih (n + 1) cnt acc h
    | some q =>
      simp only [held, List.length_cons] at h
      unfold listPartsLoop
      have hlt : ¬ cnt ≥ limit := by omega
      simp only [hlt, if_false, held]
      rw [ih (n + 1) (cnt + 1) _ (by omega)]
      simp [List.append_assoc]

/-- **listParts_page_then_rest**: a page that stops at the limit reports as continuation the
    true number of the first part it did not return, and listing again from that number yields
    exactly the remaining parts — so following NextPartNumberMarker visits every part once. -/
theorem listParts_page_split (limit : Int) (hl : 1 ≤ limit) (parts : List (Option Part)) (n : Nat) (cnt : Int)
    (hc : cnt < limit) (acc : List PartItem) :
    let r := listPartsLoop limit parts n cnt acc
    (r.truncated = false → r.parts = acc ++ held parts n) ∧
    (r.truncated = true → ∃ j, r.next = n + j ∧ j < parts.length ∧
        r.parts ++ held (parts.drop j) (n + j) = acc ++ held parts n ∧ (parts.drop j).head?.join.isSome) := by
  induction parts generalizing n cnt acc with
  | nil => simp [listPartsLoop, held]
  | cons p rest ih =>
    cases p with
    | none =>
      simp only [listPartsLoop, held]
      obtain ⟨h1, h2⟩ := ih (n + 1) cnt hc acc
      refine ⟨h1, ?_⟩
      intro ht
      obtain ⟨j, hj1, hj2, hj3, hj4⟩ := h2 ht
      exact ⟨j + 1, by omega, by simp; omega, by
        simp only [List.drop_succ_cons]; rw [show n + (j + 1) = n + 1 + j by omega]; exact hj3, by
        simp only [List.drop_succ_cons]; exact hj4⟩
    | some q =>
      unfold listPartsLoop
      have hlt : ¬ cnt ≥ limit := by omega
      simp only [hlt, if_false]
      by_cases hfull : cnt + 1 < limit
      · obtain ⟨h1, h2⟩ := ih (n + 1) (cnt + 1) hfull (acc ++ [⟨n, q.body.length, q.hash⟩])
        refine ⟨?_, ?_⟩
        · intro ht; rw [h1 ht]; simp [held, List.append_assoc]
        · intro ht
          obtain ⟨j, hj1, hj2, hj3, hj4⟩ := h2 ht
          exact ⟨j + 1, by omega, by simp; omega, by
            simp only [List.drop_succ_cons, held]; rw [show n + (j + 1) = n + 1 + j by omega, hj3]; simp [List.append_assoc], by
            simp only [List.drop_succ_cons]; exact hj4⟩
      · -- the page is full after this part: the loop stops at the next held part, if any
        have hcnt : cnt + 1 ≥ limit := by omega
        -- behaviour of the loop once the count has reached the limit
        have stop : ∀ (ps : List (Option Part)) (m : Nat) (a : List PartItem),
            ((listPartsLoop limit ps m (cnt + 1) a).truncated = false →
                (listPartsLoop limit ps m (cnt + 1) a).parts = a ∧ held ps m = []) ∧
            ((listPartsLoop limit ps m (cnt + 1) a).truncated = true →
                ∃ j, (listPartsLoop limit ps m (cnt + 1) a).next = m + j ∧ j < ps.length ∧
                  (listPartsLoop limit ps m (cnt + 1) a).parts = a ∧ held ps m = held (ps.drop j) (m + j) ∧
                  (ps.drop j).head?.join.isSome) := by
          intro ps
          induction ps with
          | nil => intro m a; simp [listPartsLoop, held]
          | cons x xs ihx =>
            intro m a
            cases x with
            | none =>
              simp only [listPartsLoop, held]
              obtain ⟨g1, g2⟩ := ihx (m + 1) a
              refine ⟨g1, ?_⟩
              intro ht
              obtain ⟨j, a1, a2, a3, a4, a5⟩ := g2 ht
              exact ⟨j + 1, by omega, by simp; omega, a3, by
                simp only [List.drop_succ_cons]; rw [show m + (j + 1) = m + 1 + j by omega]; exact a4, by
                simp only [List.drop_succ_cons]; exact a5⟩
            | some y =>
              unfold listPartsLoop
              simp only [hcnt, if_true]
              refine ⟨by simp, ?_⟩
              intro _
              exact ⟨0, by simp, by simp, by simp, by simp, by simp⟩
        obtain ⟨s1, s2⟩ := stop rest (n + 1) (acc ++ [⟨n, q.body.length, q.hash⟩])
        refine ⟨?_, ?_⟩
        · intro ht
          obtain ⟨e1, e2⟩ := s1 ht
          rw [e1]; simp [held, e2]
        · intro ht
          obtain ⟨j, a1, a2, a3, a4, a5⟩ := s2 ht
          exact ⟨j + 1, by omega, by simp; omega, by
            simp only [List.drop_succ_cons, held]; rw [a3, show n + (j + 1) = n + 1 + j by omega, ← a4]; simp [List.append_assoc], by
            simp only [List.drop_succ_cons]; exact a5⟩

/-! Non-vacuity: parts 1 and 3 held, page size 1. -/
example : listPartsLoop 1 [none, some ⟨[1], [9]⟩, none, some ⟨[2, 2], [8]⟩] 0 0 [] = ⟨[⟨1, 1, [9]⟩], true, 3⟩ := by rfl

end GFS.Props.C14
