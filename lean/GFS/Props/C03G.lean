import GFS.Props.C03M
import GFS.Model.MemList
set_option linter.unusedSimpArgs false
set_option linter.unusedVariables false
/-
  C03, grouping: the unpaginated listing WITH a delimiter.  Contents are exactly the live keys the
  specification lists as Contents, in stored order; CommonPrefixes are exactly the common prefixes
  the specification assigns to some live key, each reported once.
-/
namespace GFS.Props.C03G
open GFS GFS.Model GFS.Bytes GFS.Spec.Listing GFS.Props.C03M

/-- the live objects as the loop classifies them with `Match` -/
def liveMatch (p : Prefix) (q : Key × Obj) : Option (Bool × Bytes × Content) :=
  match q.2.data with
  | none => none
  | some d =>
    if d.marker then none
    else match p.match_ q.1 with
      | none => none
      | some (cp, mp) => some (cp, mp, ⟨q.1, d.body.length, d.hash⟩)

def contentsOf (p : Prefix) (objs : List (Key × Obj)) : List Content :=
  objs.filterMap fun q => match liveMatch p q with
    | some (false, _, c) => some c
    | _ => none

def cpsOf (p : Prefix) (objs : List (Key × Obj)) : List Bytes :=
  objs.filterMap fun q => match liveMatch p q with
    | some (true, mp, _) => some mp
    | _ => none

/-- `AddPrefix` repeated: append unless already there -/
def addAll (ps : List Bytes) (xs : List Bytes) : List Bytes :=
  xs.foldl (fun acc mp => if acc.contains mp then acc else acc ++ [mp]) ps

theorem addAll_cons (ps : List Bytes) (x : Bytes) (xs : List Bytes) :
    addAll ps (x :: xs) = addAll (if ps.contains x then ps else ps ++ [x]) xs := rfl

/-- the unpaginated loop, for every prefix/delimiter: Contents and CommonPrefixes as classified by
    `Match`; the "same as the last prefix" shortcut never changes the outcome -/
theorem listLoop_unpaged (p : Prefix) (objs : List (Key × Obj)) (cnt : Int) (last : Bytes) (acc : ObjectList)
    (hinv : ∀ q ∈ objs, q.2.data ≠ none) (hlast : last = [] ∨ last ∈ acc.prefixes)
    (hne : ∀ q ∈ objs, ∀ mp, p.match_ q.1 = some (true, mp) → mp ≠ []) :
    listLoop p 0 objs cnt last acc =
      .ok { acc with contents := acc.contents ++ contentsOf p objs, prefixes := addAll acc.prefixes (cpsOf p objs) } := by
  induction objs generalizing cnt last acc with
  | nil => simp [listLoop, contentsOf, cpsOf, addAll]
  | cons q rest ih =>
    obtain ⟨k, o⟩ := q
    have hrest : ∀ q ∈ rest, q.2.data ≠ none := fun q hq => hinv q (List.mem_cons_of_mem _ hq)
    have hd : o.data ≠ none := hinv (k, o) (List.mem_cons_self ..)
    have hne' : ∀ q ∈ rest, ∀ mp, p.match_ q.1 = some (true, mp) → mp ≠ [] := fun q hq => hne q (List.mem_cons_of_mem _ hq)
    cases hdata : o.data with
    | none => exact absurd hdata hd
    | some d =>
      unfold listLoop
      simp only [hdata]
      cases hmatch : p.match_ k with
      | none =>
        have h1 : liveMatch p (k, o) = none := by simp [liveMatch, hdata, hmatch]
        rw [ih cnt last acc hrest hlast hne']
        simp [contentsOf, cpsOf, List.filterMap_cons, h1]
      | some r =>
        obtain ⟨cp, mp⟩ := r
        simp only
        cases hmk : d.marker with
        | true =>
          have h1 : liveMatch p (k, o) = none := by simp [liveMatch, hdata, hmk]
          simp only [if_true]
          rw [ih cnt last acc hrest hlast hne']
          simp [contentsOf, cpsOf, List.filterMap_cons, h1]
        | false =>
          have h1 : liveMatch p (k, o) = some (cp, mp, ⟨k, d.body.length, d.hash⟩) := by
            simp [liveMatch, hdata, hmk, hmatch]
          simp only [Bool.false_eq_true, if_false]
          have hgt : ¬ ((0 : Int) > 0 ∧ cnt + 1 ≥ 0) := by omega
          cases cp with
          | false =>
            simp only [Bool.false_and, Bool.false_eq_true, if_false, hgt, addEntry]
            rw [ih _ _ _ hrest (by simpa using hlast) hne']
            simp [contentsOf, cpsOf, List.filterMap_cons, h1, List.append_assoc]
          | true =>
            have hmpne : mp ≠ [] := hne (k, o) (List.mem_cons_self ..) mp hmatch
            by_cases heq : (mp == last) = true
            · -- same prefix as the previous entry: skipped, and it is already among the prefixes
              have hml : mp = last := by simpa using heq
              simp only [Bool.true_and, heq, if_true]
              have hin : mp ∈ acc.prefixes := by
                rcases hlast with h | h
                · exact absurd (hml.trans h) hmpne
                · rw [hml]; exact h
              rw [ih cnt last acc hrest hlast hne']
              simp [contentsOf, cpsOf, List.filterMap_cons, h1, addAll_cons, hin]
            · simp only [Bool.true_and, heq, Bool.false_eq_true, if_false, hgt, if_true, addEntry]
              by_cases hc : acc.prefixes.contains mp = true
              · simp only [hc, if_true]
                have hin : mp ∈ acc.prefixes := by simpa using hc
                rw [ih _ _ _ hrest (Or.inr hin) hne']
                simp [contentsOf, cpsOf, List.filterMap_cons, h1, addAll_cons, hin]
              · simp only [hc, Bool.false_eq_true, if_false]
                have hnin : mp ∉ acc.prefixes := by simpa using hc
                rw [ih _ _ _ hrest (Or.inr (by simp)) hne']
                simp [contentsOf, cpsOf, List.filterMap_cons, h1, addAll_cons, hnin]

theorem addAll_spec (xs : List Bytes) : ∀ ps : List Bytes, ps.Nodup →
    (addAll ps xs).Nodup ∧ ∀ x, x ∈ addAll ps xs ↔ x ∈ ps ∨ x ∈ xs := by
  induction xs with
  | nil => intro ps h; exact ⟨h, by simp [addAll]⟩
  | cons y ys ih =>
    intro ps h
    rw [addAll_cons]
    by_cases hc : ps.contains y = true
    · simp only [hc, if_true]
      obtain ⟨a, b⟩ := ih ps h
      refine ⟨a, fun x => ?_⟩
      rw [b x]
      have : y ∈ ps := by simpa using hc
      constructor
      · rintro (h1 | h1)
        · exact Or.inl h1
        · exact Or.inr (List.mem_cons_of_mem _ h1)
      · rintro (h1 | h1)
        · exact Or.inl h1
        · rcases List.mem_cons.mp h1 with rfl | h2
          · exact Or.inl this
          · exact Or.inr h2
    · simp only [hc, Bool.false_eq_true, if_false]
      have hy : y ∉ ps := by simpa using hc
      have hnd : (ps ++ [y]).Nodup := by
        rw [List.nodup_append]
        refine ⟨h, by simp, ?_⟩
        intro a ha b hb
        simp at hb; subst hb
        intro e; subst e; exact hy ha
      obtain ⟨a, b⟩ := ih (ps ++ [y]) hnd
      refine ⟨a, fun x => ?_⟩
      rw [b x]
      simp only [List.mem_append, List.mem_singleton, List.mem_cons, List.not_mem_nil, or_false]
      constructor
      · rintro ((h1 | h1) | h1)
        · exact Or.inl h1
        · exact Or.inr (Or.inl h1)
        · exact Or.inr (Or.inr h1)
      · rintro (h1 | h1 | h1)
        · exact Or.inl (Or.inl h1)
        · exact Or.inl (Or.inr h1)
        · exact Or.inr h1

theorem filterMap_congr' {α β : Type} (f g : α → Option β) (l : List α) (h : ∀ x ∈ l, f x = g x) :
    l.filterMap f = l.filterMap g := by
  induction l with
  | nil => rfl
  | cons a as ih =>
    simp only [List.filterMap_cons, h a (List.mem_cons_self ..)]
    rw [ih (fun x hx => h x (List.mem_cons_of_mem _ hx))]

/-- a live object: it has a current version that is not a delete marker -/
def live (q : Key × Obj) : Option Content :=
  match q.2.data with
  | some d => if d.marker then none else some ⟨q.1, d.body.length, d.hash⟩
  | none => none

theorem cprefix_ne_nil (pfx key x : Bytes) (d : UInt8) (h : entryOf pfx (some d) key = some (.cprefix x)) : x ≠ [] := by
  unfold entryOf at h
  split at h
  · simp at h
  · simp only at h
    cases hi : indexOf d (key.drop pfx.length) with
    | none => simp [hi] at h
    | some i =>
      simp only [hi, Option.some.injEq, Entry.cprefix.injEq] at h
      subst h
      have : key.drop pfx.length ≠ [] := by
        intro e; rw [e] at hi; simp [indexOf] at hi
      obtain ⟨a, as, has⟩ := List.exists_cons_of_ne_nil this
      rw [has]; simp

/-- **list_delim_exact** (C03 with a delimiter, unpaginated): for every delimiter byte, every
    prefix not starting with it and every bucket content whose keys neither start nor end with it
    and whose objects have a current version, the listing
    * is not truncated,
    * has as Contents exactly the live keys the specification lists as Contents (the key starts
      with the prefix and no delimiter follows it), in stored order with stored size and digest,
    * has as CommonPrefixes, each exactly once, exactly the values `prefix + segment up to and
      including the first delimiter` of the live keys that have a delimiter after the prefix;
    delete-marked keys contribute nothing. -/
theorem list_delim_exact (hasP : Bool) (d : UInt8) (pfx : Bytes) (objs : List (Key × Obj))
    (hinv : ∀ q ∈ objs, q.2.data ≠ none)
    (hdom : ∀ q ∈ objs, q.1.head? ≠ some d ∧ q.1.getLast? ≠ some d) (hp : pfx.head? ≠ some d) :
    ∃ r, listLoop ⟨hasP, pfx, true, d⟩ 0 objs 0 [] ⟨[], [], false, []⟩ = .ok r ∧ r.truncated = false ∧
      r.contents = objs.filterMap (fun q =>
        match live q, entryOf pfx (some d) q.1 with
        | some c, some (.content _) => some c
        | _, _ => none) ∧
      r.prefixes.Nodup ∧
      ∀ x, x ∈ r.prefixes ↔ ∃ q ∈ objs, (live q).isSome ∧ entryOf pfx (some d) q.1 = some (.cprefix x) := by
  have hm : ∀ q ∈ objs, (⟨hasP, pfx, true, d⟩ : Prefix).match_ q.1 = specD d q.1 pfx :=
    fun q hq => match_eq_entryOf hasP d pfx q.1 hp (hdom q hq).1 (hdom q hq).2
  have hne : ∀ q ∈ objs, ∀ mp, (⟨hasP, pfx, true, d⟩ : Prefix).match_ q.1 = some (true, mp) → mp ≠ [] := by
    intro q hq mp h
    rw [hm q hq] at h
    unfold specD at h
    cases he : entryOf pfx (some d) q.1 with
    | none => simp [he] at h
    | some e =>
      cases e with
      | content k => simp [he] at h
      | cprefix x =>
        simp only [he, Option.some.injEq, Prod.mk.injEq, true_and] at h
        subst h
        exact cprefix_ne_nil pfx q.1 x d he
  refine ⟨_, listLoop_unpaged _ objs 0 [] ⟨[], [], false, []⟩ hinv (Or.inl rfl) hne, rfl, ?_, ?_⟩
  · -- Contents
    simp only [List.nil_append, contentsOf]
    apply filterMap_congr'
    intro q hq
    simp only [liveMatch, live, hm q hq, specD]
    cases hd : q.2.data with
    | none => simp
    | some v =>
      cases hmk : v.marker with
      | true => simp [hmk]
      | false =>
        cases he : entryOf pfx (some d) q.1 with
        | none => simp [hmk]
        | some e =>
          cases e with
          | content k => simp [hmk]
          | cprefix x => simp [hmk]
  · -- CommonPrefixes
    obtain ⟨hnd, hmem⟩ := addAll_spec (cpsOf ⟨hasP, pfx, true, d⟩ objs) [] List.nodup_nil
    refine ⟨hnd, fun x => ?_⟩
    rw [hmem x]
    simp only [List.not_mem_nil, false_or, cpsOf, List.mem_filterMap]
    constructor
    · rintro ⟨q, hq, h⟩
      refine ⟨q, hq, ?_⟩
      simp only [liveMatch, hm q hq, specD] at h
      simp only [live]
      cases hd : q.2.data with
      | none => simp [hd] at h
      | some v =>
        cases hmk : v.marker with
        | true => simp [hd, hmk] at h
        | false =>
          cases he : entryOf pfx (some d) q.1 with
          | none => simp [hd, hmk, he] at h
          | some e =>
            cases e with
            | content k => simp [hd, hmk, he] at h
            | cprefix y =>
              simp [hd, hmk, he] at h
              subst h; simp [hmk]
    · rintro ⟨q, hq, hl, he⟩
      refine ⟨q, hq, ?_⟩
      simp only [liveMatch, hm q hq, specD, he]
      simp only [live] at hl
      cases hd : q.2.data with
      | none => simp [hd] at hl
      | some v =>
        cases hmk : v.marker with
        | true => simp [hd, hmk] at hl
        | false => simp [hd, hmk]

/-! Non-vacuity: keys a/x, a/y (delete-marked), ab, b/z under delimiter '/' and prefix "a". -/
example : listLoop ⟨true, [97], true, 47⟩ 0
    [([97, 47, 120], ⟨some ⟨1, false, [1], [9], []⟩, []⟩), ([97, 47, 121], ⟨some ⟨2, true, [], [], []⟩, []⟩),
     ([97, 98], ⟨some ⟨3, false, [3, 3], [8], []⟩, []⟩), ([98, 47, 122], ⟨some ⟨4, false, [4], [7], []⟩, []⟩)]
    0 [] ⟨[], [], false, []⟩ = .ok ⟨[⟨[97, 98], 2, [8]⟩], [[97, 47]], false, []⟩ := by decide

end GFS.Props.C03G
