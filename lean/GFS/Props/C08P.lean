import GFS.Model.UploadPart
set_option linter.unusedSimpArgs false
set_option linter.unusedVariables false
/-
  C08 for part uploads: accepted exactly when the digest matches and the length is the declared
  one; a rejected part upload leaves every pending upload (and, trivially, every stored object:
  the handler never touches the backend) exactly as it was.
-/
namespace GFS.Props.C08P
open GFS GFS.Model GFS.Model.Front

theorem uploadPart_err_unchanged (md5 : Bytes → Bytes) (u : Upl) (b : Bytes) (k : Key) (id n : Nat) (size : Int)
    (body : Bytes) (c : ErrCode) (h : (u.uploadPart md5 b k id n size body).2 = .err c) :
    (u.uploadPart md5 b k id n size body).1 = u := by
  unfold Upl.uploadPart at *
  by_cases h1 : n > MaxUploadPartNumber
  · simp [h1]
  · by_cases h2 : (body.length : Int) ≠ size
    · simp [h1, h2]
    · simp only [h1, h2, if_false] at h ⊢
      cases hg : u.get b k id with
      | err c' => simp [hg]
      | panic s => simp [hg]
      | ok v => simp [hg] at h

/-- a rejected part upload changes nothing in the uploader -/
theorem part_rejected_unchanged (md5 : Bytes → Bytes) (ucfg : UploadCfg) (u : Upl) (b : Bytes) (k : Key) (id : Nat)
    (rq : PartReq) (c : ErrCode) (h : (uploadPartReq md5 ucfg u b k id rq).2 = .err c) :
    (uploadPartReq md5 ucfg u b k id rq).1 = u := by
  unfold uploadPartReq at *
  cases hc : partChecks md5 ucfg rq with
  | err c' => simp [hc]
  | panic s => simp [hc]
  | ok v =>
    obtain ⟨n, size⟩ := v
    simp only [hc] at h ⊢
    exact uploadPart_err_unchanged md5 u b k id n size rq.body c h

/-- with integrity checking on, a part upload that carries a well-formed Content-MD5 and gets past
    the header checks is acknowledged only if the digest is the MD5 of the bytes received and their
    count is the declared length -/
theorem part_accepted_checks (md5 : Bytes → Bytes) (ucfg : UploadCfg) (u : Upl) (b : Bytes) (k : Key) (id : Nat)
    (rq : PartReq) (e : Bytes) (h : (uploadPartReq md5 ucfg u b k id rq).2 = .ok e) :
    e = md5 rq.body ∧
    (ucfg.integrity = true → ∀ d, rq.md5 = .digest d → d = md5 rq.body) ∧
    (ucfg.integrity = true → rq.md5 ≠ .empty ∧ rq.md5 ≠ .malformed) ∧
    ∃ size, rq.contentLength.bind parseInt64 = some size ∧ (rq.body.length : Int) = size := by
  unfold uploadPartReq at h
  cases hc : partChecks md5 ucfg rq with
  | err c' => simp [hc] at h
  | panic s => simp [hc] at h
  | ok v =>
    obtain ⟨n, size⟩ := v
    simp only [hc] at h
    have he : e = md5 rq.body := by
      unfold Upl.uploadPart at h
      split at h
      · simp at h
      · split at h
        · simp at h
        · cases hg : u.get b k id with
          | err c' => simp [hg] at h
          | panic s => simp [hg] at h
          | ok v => simp [hg] at h; exact h.symm
    unfold partChecks at hc
    cases hpn : rq.partNumber with
    | none => simp [hpn] at hc
    | some pn =>
      simp only [hpn] at hc
      by_cases c1 : pn ≤ 0 ∨ pn > (MaxUploadPartNumber : Nat)
      · simp [c1] at hc
      · simp only [c1, if_false] at hc
        cases hcl : rq.contentLength.bind parseInt64 with
        | none => simp [hcl] at hc
        | some sz =>
          simp only [hcl] at hc
          by_cases c2 : sz ≤ 0
          · simp [c2] at hc
          · simp only [c2, if_false] at hc
            by_cases c3 : (ucfg.integrity && rq.md5 == .empty) = true
            · simp [c3] at hc
            · simp only [c3, if_false] at hc
              by_cases c4 : (ucfg.integrity && rq.md5 == .malformed) = true
              · simp [c4] at hc
              · simp only [c4, if_false] at hc
                by_cases c5 : digestOk md5 rq.body (expectedOf ucfg rq.md5) = false
                · simp [c5] at hc
                · simp only [c5, Bool.not_eq_true', if_false] at hc
                  by_cases c6 : (rq.body.length : Int) ≠ sz
                  · simp [c6] at hc
                  · refine ⟨he, ?_, ?_, sz, rfl, ?_⟩
                    · intro hi d hd
                      simp only [expectedOf, hi, hd, if_true, digestOk] at c5
                      simpa using c5
                    · intro hi
                      constructor
                      · intro hm; simp [hi, hm] at c3
                      · intro hm; simp [hi, hm] at c4
                    · simpa using c6

/-- conversely: a part upload to a pending upload with a valid number, the right length and (when
    checked) the right digest is acknowledged with the MD5 of its bytes -/
theorem part_good_accepted (md5 : Bytes → Bytes) (ucfg : UploadCfg) (u : Upl) (b : Bytes) (k : Key) (id : Nat)
    (bu : BUps) (m : MPU) (n : Int) (cl body : Bytes) (mh : Md5Hdr)
    (hg : u.get b k id = .ok (bu, m)) (hn : 1 ≤ n ∧ n ≤ 10000)
    (hcl : parseInt64 cl = some (body.length : Int)) (hb : body ≠ [])
    (hm : mh = .absent ∨ mh = .digest (md5 body)) :
    (uploadPartReq md5 ucfg u b k id ⟨some n, some cl, mh, body⟩).2 = .ok (md5 body) := by
  have hpos : 0 < body.length := List.length_pos_iff.mpr hb
  have hchk : partChecks md5 ucfg ⟨some n, some cl, mh, body⟩ = .ok (n.toNat, (body.length : Int)) := by
    unfold partChecks
    have h1 : ¬ (n ≤ 0 ∨ n > (MaxUploadPartNumber : Nat)) := by simp [MaxUploadPartNumber]; omega
    simp only [h1, if_false, Option.bind_some, hcl]
    have h2 : ¬ ((body.length : Int) ≤ 0) := by omega
    simp only [h2, if_false]
    rcases hm with rfl | rfl
    · cases hi : ucfg.integrity <;> simp [digestOk, expectedOf, hi]
    · cases hi : ucfg.integrity <;> simp [digestOk, expectedOf, hi]
  unfold uploadPartReq
  simp only [hchk]
  unfold Upl.uploadPart
  have h3 : ¬ (n.toNat > MaxUploadPartNumber) := by simp [MaxUploadPartNumber]; omega
  simp [h3, hg]

/-! Non-vacuity: a wrong digest is refused with BadDigest before the upload is even looked up. -/
example : (uploadPartReq (fun _ => [1]) {} Upl.empty [98] [107] 1 ⟨some 1, some [49], .digest [2], [7]⟩).2 = .err .BadDigest := by
  decide

end GFS.Props.C08P
