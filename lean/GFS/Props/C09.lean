import GFS.Model.Front
import GFS.Generated.Facts
import GFS.Lemmas.SMapLemmas
set_option linter.unusedSimpArgs false
set_option linter.unusedVariables false
/-
  C09 — every request gets a well-formed answer; no panic, no wedged state.
  (1) the status table re-read from error.go is consistent; (2) the representation invariant
  "every stored object has a current version" is preserved by every mutating operation of the
  backend model (this is what the repair of D4 established) and (3) under it no read or listing
  operation of the model can reach a nil dereference.
-/
namespace GFS.Props.C09
open GFS GFS.Model GFS.SMapL

/-! ### error answers carry a status consistent with their code -/

/-- **error_status_wellformed**: every error code declared in error.go is answered with a
    status in {304} ∪ [400,599] (the table is regenerated from the source on every run; the
    table is the quantifier) -/
theorem error_status_wellformed :
    ∀ p ∈ GFS.Generated.statusTable, p.2 = 304 ∨ (400 ≤ p.2 ∧ p.2 ≤ 599) := by
  decide

theorem default_status_wellformed : 400 ≤ GFS.Generated.statusDefault ∧ GFS.Generated.statusDefault ≤ 599 := by
  decide

/-- the codes the model's handlers can answer with are all in the table -/
theorem model_codes_in_table :
    ∀ c ∈ ErrCode.all, (GFS.Generated.statusTable.find? (fun p => p.1 == c.name)).isSome = true := by
  decide

/-! ### the representation invariant -/

def InvB (bk : Bucket) : Prop := ∀ p ∈ bk.objects, p.2.data ≠ none
def Inv (m : Mem) : Prop := ∀ q ∈ m.buckets, InvB q.2

theorem promote_data (o : Obj) (h : (o.promote).data = none) : o.data = none ∧ o.versions = [] := by
  unfold Obj.promote at h
  cases hd : o.data with
  | some d => simp [hd] at h
  | none =>
    simp only [hd] at h
    cases hl : o.versions.getLast? with
    | none => exact ⟨rfl, List.getLast?_eq_none_iff.mp hl⟩
    | some l => simp [hl] at h

theorem promote_ok (o : Obj) (h : (o.promote).data = none) : (o.promote).versions = [] := by
  obtain ⟨h1, h2⟩ := promote_data o h
  unfold Obj.promote
  simp [h1, h2]

theorem put_inv (bk : Bucket) (k : Key) (item : Ver) (h : InvB bk) : InvB (bk.put k item) := by
  intro p hp
  unfold Bucket.put at hp
  rcases mem_insert _ _ _ p hp with e | e
  · subst e; simp
  · exact h p e

theorem rm_inv (bk : Bucket) (k : Key) (id : Nat) (h : InvB bk) : InvB (bk.rm k id).1 := by
  unfold Bucket.rm
  cases ho : SMap.find bk.objects k with
  | none => exact h
  | some o =>
    simp only
    split
    · exact put_inv bk k _ h
    · split
      · intro p hp; exact h p (mem_erase _ _ p hp)
      · rename_i d hd
        intro p hp
        rcases mem_insert _ _ _ p hp with e | e
        · subst e; simp [hd]
        · exact h p e

theorem storeObj_inv (bk : Bucket) (k : Key) (o : Obj) (h : InvB bk) (ho : o.data = none → o.versions = []) :
    InvB (bk.storeObj k o) := by
  unfold Bucket.storeObj
  split
  · intro p hp; exact h p (mem_erase _ _ p hp)
  · rename_i hc
    intro p hp
    rcases mem_insert _ _ _ p hp with e | e
    · subst e
      intro hn
      have := ho hn
      simp only at hn
      simp [hn, this] at hc
    · exact h p e

/-- **rmVersion_inv** (the repaired D4): deleting any version — the current one included, while
    older ones remain — leaves every object of the bucket with a current version -/
theorem rmVersion_inv (bk : Bucket) (k : Key) (vid : Nat) (h : InvB bk) : InvB (bk.rmVersion k vid).1 := by
  unfold Bucket.rmVersion
  cases ho : SMap.find bk.objects k with
  | none => exact h
  | some o =>
    obtain ⟨k0, hmem⟩ := find_mem _ _ _ ho
    have hod : o.data ≠ none := h (k0, o) hmem
    simp only
    cases hd : o.data with
    | none => exact absurd hd hod
    | some d =>
      simp only
      split
      · apply storeObj_inv _ _ _ h
        intro hn
        exact promote_ok _ hn
      · split
        · apply storeObj_inv _ _ _ h
          intro hn; simp [hd] at hn
        · apply storeObj_inv _ _ _ h
          intro hn; exact absurd hn hod

/-- lifting a bucket-level step to the store -/
theorem inv_insert_bucket (m : Mem) (b : Bytes) (bk' : Bucket) (n : Nat) (h : Inv m) (hb : InvB bk') :
    Inv { buckets := SMap.insert m.buckets b bk', nextVer := n } := by
  intro q hq
  rcases mem_insert _ _ _ q hq with e | e
  · subst e; exact hb
  · exact h q e

theorem inv_bucket_of_find (m : Mem) (b : Bytes) (bk : Bucket) (h : Inv m) (hf : SMap.find m.buckets b = some bk) : InvB bk := by
  obtain ⟨k', hm⟩ := find_mem _ _ _ hf
  exact h (k', bk) hm

/-- **handle_preserves_inv**: every mutating operation of the backend model preserves the
    invariant — after any request sequence, no object is left without a current version -/
theorem put_preserves (md5 : Bytes → Bytes) (m : Mem) (b : Bytes) (k : Key) (md : Meta) (body : Bytes) (h : Inv m) :
    Inv (m.put md5 b k md body).1 := by
  unfold Mem.put Mem.putCommit
  cases hb : SMap.find m.buckets b with
  | none => exact h
  | some bk => exact inv_insert_bucket m b _ _ h (put_inv bk k _ (inv_bucket_of_find m b bk h hb))

theorem delete_preserves (m : Mem) (b : Bytes) (k : Key) (h : Inv m) : Inv (m.delete b k).1 := by
  unfold Mem.delete
  cases hb : SMap.find m.buckets b with
  | none => exact h
  | some bk => exact inv_insert_bucket m b _ _ h (rm_inv bk k _ (inv_bucket_of_find m b bk h hb))

theorem deleteVersion_preserves (m : Mem) (b : Bytes) (k : Key) (vid : Nat) (h : Inv m) : Inv (m.deleteVersion b k vid).1 := by
  unfold Mem.deleteVersion
  cases hb : SMap.find m.buckets b with
  | none => exact h
  | some bk => exact inv_insert_bucket m b _ _ h (rmVersion_inv bk k vid (inv_bucket_of_find m b bk h hb))

theorem setVersioning_preserves (m : Mem) (b : Bytes) (e : Bool) (h : Inv m) : Inv (m.setVersioning b e).1 := by
  unfold Mem.setVersioning
  cases hb : SMap.find m.buckets b with
  | none => exact h
  | some bk =>
    apply inv_insert_bucket m b _ _ h
    exact inv_bucket_of_find m b bk h hb

theorem createBucket_preserves (m : Mem) (b : Bytes) (h : Inv m) : Inv (m.createBucket b).1 := by
  unfold Mem.createBucket
  split
  · exact h
  · apply inv_insert_bucket m b _ _ h
    intro p hp; simp at hp

theorem deleteBucket_preserves (m : Mem) (b : Bytes) (h : Inv m) : Inv (m.deleteBucket b).1 := by
  unfold Mem.deleteBucket
  cases hb : SMap.find m.buckets b with
  | none => exact h
  | some bk =>
    simp only
    split
    · exact h
    · intro q hq; exact h q (mem_erase _ _ q hq)

theorem empty_inv : Inv Mem.empty := by intro q hq; simp [Mem.empty] at hq

/-! ### no panic under the invariant -/

/-- **read_no_panic**: under the invariant neither GetObject nor HeadObject can dereference nil -/
theorem read_no_panic (m : Mem) (b : Bytes) (k : Key) (h : Inv m) : ∀ s, m.get b k ≠ .panic s := by
  intro s
  unfold Mem.get Mem.current
  cases hb : SMap.find m.buckets b with
  | none => simp
  | some bk =>
    simp only
    cases ho : SMap.find bk.objects k with
    | none => simp
    | some o =>
      obtain ⟨k0, hm⟩ := find_mem _ _ _ ho
      have := inv_bucket_of_find m b bk h hb (k0, o) hm
      cases hd : o.data with
      | none => exact absurd hd this
      | some d =>
        simp only [hd]
        split <;> simp

theorem skipCovered_no_panic (p : Prefix) (last : Bytes) (objs : List (Key × Obj)) (nm : Bytes)
    (h : ∀ q ∈ objs, q.2.data ≠ none) : ∀ s, skipCovered p last objs nm ≠ .panic s := by
  induction objs generalizing nm with
  | nil => intro s; simp [skipCovered]
  | cons q rest ih =>
    obtain ⟨k, o⟩ := q
    intro s
    unfold skipCovered
    have hq := h (k, o) (List.mem_cons_self ..)
    cases hd : o.data with
    | none => exact absurd hd hq
    | some d =>
      simp only
      have hr : ∀ q ∈ rest, q.2.data ≠ none := fun q hq => h q (List.mem_cons_of_mem _ hq)
      split
      · split
        · exact ih k hr s
        · simp
      · simp

/-- **list_no_panic**: under the invariant no listing (any prefix, delimiter, marker, page size)
    can dereference nil -/
theorem listLoop_no_panic (p : Prefix) (mk : Int) (objs : List (Key × Obj)) (cnt : Int) (last : Bytes) (acc : ObjectList)
    (h : ∀ q ∈ objs, q.2.data ≠ none) : ∀ s, listLoop p mk objs cnt last acc ≠ .panic s := by
  induction objs generalizing cnt last acc with
  | nil => intro s; simp [listLoop]
  | cons q rest ih =>
    obtain ⟨k, o⟩ := q
    intro s
    have hq := h (k, o) (List.mem_cons_self ..)
    have hr : ∀ q ∈ rest, q.2.data ≠ none := fun q hq => h q (List.mem_cons_of_mem _ hq)
    unfold listLoop
    cases hd : o.data with
    | none => exact absurd hd hq
    | some d =>
      simp only
      split
      · exact ih cnt last acc hr s
      · split
        · exact ih cnt last acc hr s
        · split
          · exact ih cnt last acc hr s
          · split
            · split
              · rename_i mp _ _ _ _ _
                cases hs : skipCovered p _ rest k with
                | ok v => simp
                | err e => simp
                | panic s' => exact absurd hs (skipCovered_no_panic p _ rest k hr s')
              · simp
            · exact ih _ _ _ hr s

theorem listBucket_no_panic (m : Mem) (b : Bytes) (p : Prefix) (marker : Bytes) (mk : Int) (h : Inv m) :
    ∀ s, m.listBucket b p marker mk ≠ .panic s := by
  intro s
  unfold Mem.listBucket
  cases hb : SMap.find m.buckets b with
  | none => simp
  | some bk =>
    simp only
    apply listLoop_no_panic
    intro q hq
    have hb' := inv_bucket_of_find m b bk h hb
    unfold afterMarker at hq
    split at hq
    · exact hb' q hq
    · exact hb' q (List.mem_filter.mp hq).1

/-! Non-vacuity: the invariant holds of a store reached by put and delete-version. -/
example : Inv (Mem.put id (Mem.createBucket Mem.empty [98]).1 [98] [107] [] [1]).1 :=
  put_preserves id _ _ _ _ _ (createBucket_preserves _ _ empty_inv)

end GFS.Props.C09
