import GFS.Props.C16
set_option linter.unusedSimpArgs false
set_option linter.unusedVariables false
/-
  C16, the other direction of `matchBucket_sound`: with a list of host bases, a host that IS
  `<single label>.<base>` for ANY configured base is routed to that label's bucket — whatever the
  position of the base in the list and whatever other bases (parents, children, unrelated ones)
  stand before it.
-/
namespace GFS.Props.C16M
open GFS GFS.Model GFS.Bytes GFS.Props.C16

theorem hasPrefix_append (p x : Bytes) : hasPrefix (p ++ x) p = true := by
  induction p with
  | nil => cases x <;> rfl
  | cons c cs ih => simp [hasPrefix, ih]

theorem hasSuffix_append (a p : Bytes) : hasSuffix (a ++ p) p = true := by
  unfold hasSuffix
  rw [List.reverse_append]
  exact hasPrefix_append _ _

theorem hasSuffix_split (s p : Bytes) (h : hasSuffix s p = true) : s = s.take (s.length - p.length) ++ p := by
  unfold hasSuffix at h
  have := hasPrefix_eq _ _ h
  have hrev := congrArg List.reverse this
  simp only [List.reverse_reverse, List.reverse_append] at hrev
  have htake : List.take (s.length - p.length) s = (List.drop (List.reverse p).length (List.reverse s)).reverse := by
    rw [List.length_reverse, List.drop_reverse, List.reverse_reverse]
  rw [htake]
  exact hrev

/-- a dot-free label in front of a base is the host's first label -/
theorem label_unique (l1 l2 r1 r2 : Bytes) (h1 : (46 : UInt8) ∉ l1) (h2 : (46 : UInt8) ∉ l2)
    (h : l1 ++ 46 :: r1 = l2 ++ 46 :: r2) : l1 = l2 := by
  have a := firstLabel_label l1 r1 h1
  have b := firstLabel_label l2 r2 h2
  rw [h] at a
  rw [← a, b]

/-- **matchBucket_complete**: for every list of bases, every base in it and every dot-free label,
    the host `<label>.<base>` is matched to `<label>` — a parent domain listed earlier (which
    leaves a remainder with a dot) or any other base does not stop the search. -/
theorem matchBucket_complete (bases : List Bytes) (base label : Bytes) (hb : base ∈ bases) (hdot : (46 : UInt8) ∉ label) :
    matchBucket bases (label ++ normBase base) = some label := by
  induction bases with
  | nil => simp at hb
  | cons b0 rest ih =>
    unfold matchBucket
    simp only
    by_cases hsuf : hasSuffix (label ++ normBase base) (normBase b0) = true
    · simp only [hsuf, if_true]
      have hsplit := hasSuffix_split _ _ hsuf
      by_cases hc : (List.take ((label ++ normBase base).length - (normBase b0).length) (label ++ normBase base)).contains 46 = true
      · simp only [hc, if_true]
        -- the remainder has a dot, so this is not the base the host was built from
        rcases List.mem_cons.mp hb with rfl | hin
        · exfalso
          have : List.take ((label ++ normBase base).length - (normBase base).length) (label ++ normBase base) = label := by
            simp
          rw [this] at hc
          exact hdot (by simpa using hc)
        · exact ih hin
      · simp only [hc, Bool.false_eq_true, if_false, Option.some.injEq]
        have hnd : (46 : UInt8) ∉ List.take ((label ++ normBase base).length - (normBase b0).length) (label ++ normBase base) := by
          simpa using hc
        have e : List.take ((label ++ normBase base).length - (normBase b0).length) (label ++ normBase base) ++ 46 :: trim1 46 b0
            = label ++ 46 :: trim1 46 base := by
          have := hsplit.symm
          simpa [normBase] using this
        exact label_unique _ _ _ _ hnd hdot e
    · simp only [hsuf, Bool.false_eq_true, if_false]
      rcases List.mem_cons.mp hb with rfl | hin
      · exact absurd (hasSuffix_append label (normBase base)) hsuf
      · exact ih hin

/-- with bases configured, such a host is answered as the path-style request for the label's bucket -/
theorem base_host_eq_path (bases : List Bytes) (base label path : Bytes) (hb : base ∈ bases) (hdot : (46 : UInt8) ∉ label) :
    baseRewrite bases (label ++ normBase base) path = withBucket label path := by
  unfold baseRewrite
  rw [matchBucket_complete bases base label hb hdot]

/-! Non-vacuity: parent domain "ex" listed before the child "s3.ex": host "b.s3.ex" goes to bucket "b". -/
example : matchBucket [[101, 120], [115, 51, 46, 101, 120]] [98, 46, 115, 51, 46, 101, 120] = some [98] := by decide

end GFS.Props.C16M
