import GFS.Model.FsTree
set_option linter.unusedSimpArgs false
set_option linter.unusedVariables false
/-
  The directory tree an fs bucket keeps: after any sequence of uploads and deletes the directories
  are exactly the proper ancestors of the object files — no object is a directory, no directory is
  empty (no leftovers of deleted keys), no object lies below another object — and an operation on
  one key leaves every other key's bytes alone.
-/
namespace GFS.Props.FsInv
open GFS GFS.Model.Fs

/-- `a` is a proper, non-empty prefix of `p` -/
def IsAnc (a p : Path) : Prop := a ≠ [] ∧ ∃ t, t ≠ [] ∧ p = a ++ t

theorem mem_ancestors (p a : Path) : a ∈ ancestors p ↔ IsAnc a p := by
  induction p generalizing a with
  | nil => simp [ancestors, IsAnc]
  | cons s rest ih =>
    simp only [ancestors, List.mem_append, List.mem_map]
    constructor
    · rintro (⟨b, hb, rfl⟩ | h)
      · obtain ⟨hne, t, ht, hp⟩ := (ih b).mp hb
        exact ⟨by simp, t, ht, by rw [hp]; rfl⟩
      · split at h
        · simp at h
        · rename_i hr
          simp at h; subst h
          exact ⟨by simp, rest, by simpa using hr, rfl⟩
    · rintro ⟨hne, t, ht, hp⟩
      cases a with
      | nil => exact absurd rfl hne
      | cons a0 as =>
        simp only [List.cons_append, List.cons.injEq] at hp
        obtain ⟨rfl, hrest⟩ := hp
        cases as with
        | nil =>
          right
          have : rest.isEmpty = false := by
            cases rest with
            | nil => simp at hrest; exact absurd hrest ht
            | cons _ _ => rfl
          simp [this]
        | cons a1 as' =>
          left
          exact ⟨a1 :: as', (ih _).mpr ⟨by simp, t, ht, hrest⟩, rfl⟩

theorem isAnc_trans {a b c : Path} (h1 : IsAnc a b) (h2 : IsAnc b c) : IsAnc a c := by
  obtain ⟨ha, t1, ht1, rfl⟩ := h1
  obtain ⟨_, t2, ht2, rfl⟩ := h2
  exact ⟨ha, t1 ++ t2, by simp [ht1], by simp [List.append_assoc]⟩

theorem isAnc_ne {a p : Path} (h : IsAnc a p) : a ≠ p := by
  obtain ⟨_, t, ht, rfl⟩ := h
  intro e
  have := congrArg List.length e
  simp at this
  exact ht this

/-- the parent of a path with at least two segments is one of its ancestors -/
theorem parent_isAnc (p : Path) (h : 2 ≤ p.length) : IsAnc p.dropLast p := by
  refine ⟨?_, [p.getLast (by intro e; subst e; simp at h)], by simp, ?_⟩
  · intro e
    have := congrArg List.length e
    simp at this; omega
  · exact (List.dropLast_concat_getLast _).symm

/-- an ancestor is the parent, or an ancestor of the parent -/
theorem isAnc_parent (a p : Path) (h : IsAnc a p) : a = p.dropLast ∨ IsAnc a p.dropLast := by
  obtain ⟨ha, t, ht, rfl⟩ := h
  have hd : (a ++ t).dropLast = a ++ t.dropLast := by
    rw [List.dropLast_append_of_ne_nil ht]
  rw [hd]
  by_cases h1 : t.dropLast = []
  · left; simp [h1]
  · right; exact ⟨ha, t.dropLast, h1, rfl⟩

structure Inv (t : Tree) : Prop where
  filesNe : ∀ f ∈ t.files, f.1 ≠ []
  uniq : (t.files.map (·.1)).Nodup
  anc : ∀ f ∈ t.files, ∀ a, IsAnc a f.1 → a ∈ t.dirs
  dirsNe : ∀ d ∈ t.dirs, d ≠ []
  dirsAnc : ∀ d ∈ t.dirs, ∀ a, IsAnc a d → a ∈ t.dirs
  disjoint : ∀ f ∈ t.files, f.1 ∉ t.dirs
  nonEmpty : ∀ d ∈ t.dirs, hasEntries t d = true

theorem inv_empty : Inv Tree.empty :=
  ⟨by simp [Tree.empty], by simp [Tree.empty], by simp [Tree.empty], by simp [Tree.empty], by simp [Tree.empty],
   by simp [Tree.empty], by simp [Tree.empty]⟩

theorem hasEntries_iff (t : Tree) (p : Path) :
    hasEntries t p = true ↔ (∃ f ∈ t.files, f.1 ≠ [] ∧ f.1.dropLast = p) ∨ (∃ d ∈ t.dirs, d ≠ [] ∧ d.dropLast = p) := by
  simp only [hasEntries, Bool.or_eq_true, List.any_eq_true, Bool.and_eq_true, Bool.not_eq_true', beq_iff_eq]
  constructor
  · rintro (⟨f, hf, h1, h2⟩ | ⟨d, hd, h1, h2⟩)
    · exact Or.inl ⟨f, hf, by simpa using h1, h2⟩
    · exact Or.inr ⟨d, hd, by simpa using h1, h2⟩
  · rintro (⟨f, hf, h1, h2⟩ | ⟨d, hd, h1, h2⟩)
    · exact Or.inl ⟨f, hf, by simpa using h1, h2⟩
    · exact Or.inr ⟨d, hd, by simpa using h1, h2⟩

theorem isFile_iff (t : Tree) (p : Path) : isFile t p = true ↔ ∃ f ∈ t.files, f.1 = p := by
  simp [isFile, List.any_eq_true]

theorem isDir_iff (t : Tree) (p : Path) : isDir t p = true ↔ p ∈ t.dirs := by
  simp [isDir]

/-- what an accepted upload looks like -/
theorem put_some (t : Tree) (k : Path) (body : Bytes) (t' : Tree) (h : put t k body = some t') :
    k ≠ [] ∧ k ∉ t.dirs ∧ (∀ a, IsAnc a k → ∀ f ∈ t.files, f.1 ≠ a) ∧
    t'.files = t.files.filter (fun f => !(f.1 == k)) ++ [(k, body)] ∧
    t'.dirs = t.dirs ++ (ancestors k).filter (fun a => !isDir t a) := by
  unfold put at h
  by_cases h1 : k.isEmpty = true
  · simp [h1] at h
  · by_cases h2 : isDir t k = true
    · simp [h1, h2] at h
    · by_cases h3 : (ancestors k).any (isFile t) = true
      · simp [h1, h2, h3] at h
      · simp only [h1, h2, h3, Bool.false_eq_true, if_false, Option.some.injEq] at h
        subst h
        refine ⟨by intro e; subst e; simp at h1, by simpa [isDir] using h2, ?_, rfl, rfl⟩
        intro a ha f hf e
        apply h3
        rw [List.any_eq_true]
        exact ⟨a, (mem_ancestors k a).mpr ha, (isFile_iff t a).mpr ⟨f, hf, e⟩⟩

theorem mem_put_dirs (t : Tree) (k : Path) (d : Path) :
    d ∈ t.dirs ++ (ancestors k).filter (fun a => !isDir t a) ↔ d ∈ t.dirs ∨ IsAnc d k := by
  simp only [List.mem_append, List.mem_filter, mem_ancestors, Bool.not_eq_true', isDir]
  constructor
  · rintro (h | ⟨h, _⟩)
    · exact Or.inl h
    · exact Or.inr h
  · rintro (h | h)
    · exact Or.inl h
    · by_cases hd : d ∈ t.dirs
      · exact Or.inl hd
      · exact Or.inr ⟨h, by simpa using hd⟩

/-- **put_inv**: an accepted upload keeps the tree well-formed -/
theorem put_inv (t : Tree) (k : Path) (body : Bytes) (t' : Tree) (hi : Inv t) (h : put t k body = some t') : Inv t' := by
  obtain ⟨hk, hkd, hanc, hf, hd⟩ := put_some t k body t' h
  have memF : ∀ f, f ∈ t'.files ↔ (f ∈ t.files ∧ f.1 ≠ k) ∨ f = (k, body) := by
    intro f; rw [hf]; simp [List.mem_append, List.mem_filter]
  have memD : ∀ d, d ∈ t'.dirs ↔ d ∈ t.dirs ∨ IsAnc d k := by
    intro d; rw [hd]; exact mem_put_dirs t k d
  refine ⟨?_, ?_, ?_, ?_, ?_, ?_, ?_⟩
  · intro f hf'
    rcases (memF f).mp hf' with ⟨h1, _⟩ | rfl
    · exact hi.filesNe f h1
    · exact hk
  · rw [hf, List.map_append, List.nodup_append]
    refine ⟨?_, by simp, ?_⟩
    · exact (hi.uniq.sublist (List.Sublist.map _ (List.filter_sublist)))
    · intro a ha b hb
      simp only [List.map_cons, List.map_nil, List.mem_singleton] at hb
      subst hb
      simp only [List.mem_map, List.mem_filter, Bool.not_eq_true', beq_eq_false_iff_ne] at ha
      obtain ⟨f, ⟨_, hne⟩, rfl⟩ := ha
      exact hne
  · intro f hf' a ha
    rw [memD]
    rcases (memF f).mp hf' with ⟨h1, _⟩ | rfl
    · exact Or.inl (hi.anc f h1 a ha)
    · exact Or.inr ha
  · intro d hd'
    rcases (memD d).mp hd' with h1 | h1
    · exact hi.dirsNe d h1
    · exact h1.1
  · intro d hd' a ha
    rw [memD]
    rcases (memD d).mp hd' with h1 | h1
    · exact Or.inl (hi.dirsAnc d h1 a ha)
    · exact Or.inr (isAnc_trans ha h1)
  · intro f hf' hfd
    rcases (memF f).mp hf' with ⟨h1, _⟩ | rfl
    · rcases (memD f.1).mp hfd with h2 | h2
      · exact hi.disjoint f h1 h2
      · exact hanc f.1 h2 f h1 rfl
    · rcases (memD k).mp hfd with h2 | h2
      · exact hkd h2
      · exact isAnc_ne h2 rfl
  · intro d hd'
    rw [hasEntries_iff]
    rcases (memD d).mp hd' with h1 | h1
    · -- an old directory keeps an entry
      rcases (hasEntries_iff t d).mp (hi.nonEmpty d h1) with ⟨f, hf1, hf2, hf3⟩ | ⟨e, he1, he2, he3⟩
      · by_cases hfk : f.1 = k
        · exact Or.inl ⟨(k, body), (memF _).mpr (Or.inr rfl), hk, by rw [← hfk]; exact hf3⟩
        · exact Or.inl ⟨f, (memF f).mpr (Or.inl ⟨hf1, hfk⟩), hf2, hf3⟩
      · exact Or.inr ⟨e, (memD e).mpr (Or.inl he1), he2, he3⟩
    · -- a directory on the way to k: its child on that way
      obtain ⟨hdne, tl, htl, hkeq⟩ := h1
      cases tl with
      | nil => exact absurd rfl htl
      | cons x xs =>
        cases xs with
        | nil =>
          -- d is the parent of k
          left
          refine ⟨(k, body), (memF _).mpr (Or.inr rfl), hk, ?_⟩
          simp only
          rw [hkeq]; simp [List.dropLast_concat]
        | cons y ys =>
          right
          refine ⟨d ++ [x], (memD _).mpr (Or.inr ⟨by simp, y :: ys, by simp, by rw [hkeq]; simp⟩), by simp, ?_⟩
          simp [List.dropLast_concat]

/-- the tree is well-formed except that directory `x` may have been left empty -/
structure InvX (t : Tree) (x : Path) : Prop where
  filesNe : ∀ f ∈ t.files, f.1 ≠ []
  uniq : (t.files.map (·.1)).Nodup
  anc : ∀ f ∈ t.files, ∀ a, IsAnc a f.1 → a ∈ t.dirs
  dirsNe : ∀ d ∈ t.dirs, d ≠ []
  dirsAnc : ∀ d ∈ t.dirs, ∀ a, IsAnc a d → a ∈ t.dirs
  disjoint : ∀ f ∈ t.files, f.1 ∉ t.dirs
  nonEmpty : ∀ d ∈ t.dirs, d ≠ x → hasEntries t d = true

/-- below an ancestor lies a child on the way to the path -/
theorem child_of_anc (a p : Path) (h : IsAnc a p) : ∃ c, c ≠ [] ∧ c.dropLast = a ∧ (c = p ∨ IsAnc c p) := by
  obtain ⟨ha, t, ht, rfl⟩ := h
  cases t with
  | nil => exact absurd rfl ht
  | cons x xs =>
    refine ⟨a ++ [x], by simp, by simp [List.dropLast_concat], ?_⟩
    cases xs with
    | nil => exact Or.inl rfl
    | cons y ys => exact Or.inr ⟨by simp, y :: ys, by simp, by simp⟩

theorem prune_inv (fuel : Nat) : ∀ (t : Tree) (dir : Path), InvX t dir → dir.length ≤ fuel → Inv (prune t fuel dir) := by
  induction fuel with
  | zero =>
    intro t dir h hl
    have hd : dir = [] := List.eq_nil_of_length_eq_zero (by omega)
    subst hd
    simp only [prune]
    exact ⟨h.filesNe, h.uniq, h.anc, h.dirsNe, h.dirsAnc, h.disjoint, fun d hd => h.nonEmpty d hd (h.dirsNe d hd)⟩
  | succ fuel ih =>
    intro t dir h hl
    unfold prune
    by_cases he : dir.isEmpty = true
    · have hd : dir = [] := by simpa using he
      subst hd
      simp only [List.isEmpty_nil, if_true]
      exact ⟨h.filesNe, h.uniq, h.anc, h.dirsNe, h.dirsAnc, h.disjoint, fun d hd => h.nonEmpty d hd (h.dirsNe d hd)⟩
    · simp only [he, Bool.false_eq_true, if_false]
      by_cases hh : hasEntries t dir = true
      · simp only [hh, if_true]
        refine ⟨h.filesNe, h.uniq, h.anc, h.dirsNe, h.dirsAnc, h.disjoint, ?_⟩
        intro d hd
        by_cases hdd : d = dir
        · subst hdd; exact hh
        · exact h.nonEmpty d hd hdd
      · simp only [hh, Bool.false_eq_true, if_false]
        have hno : ¬ ((∃ f ∈ t.files, f.1 ≠ [] ∧ f.1.dropLast = dir) ∨ (∃ d ∈ t.dirs, d ≠ [] ∧ d.dropLast = dir)) :=
          fun hx => hh ((hasEntries_iff t dir).mpr hx)
        apply ih
        · -- the smaller tree, exception moved to the parent
          have memD : ∀ d, d ∈ t.dirs.filter (fun d => !(d == dir)) ↔ d ∈ t.dirs ∧ d ≠ dir := by
            intro d; simp [List.mem_filter]
          refine ⟨h.filesNe, h.uniq, ?_, ?_, ?_, ?_, ?_⟩
          · intro f hf a ha
            simp only
            rw [memD]
            refine ⟨h.anc f hf a ha, ?_⟩
            intro hEq
            subst hEq
            obtain ⟨c, hc1, hc2, hc3⟩ := child_of_anc a f.1 ha
            rcases hc3 with rfl | hc3
            · exact hno (Or.inl ⟨f, hf, hc1, hc2⟩)
            · exact hno (Or.inr ⟨c, h.anc f hf c hc3, hc1, hc2⟩)
          · intro d hd; exact h.dirsNe d ((memD d).mp hd).1
          · intro d hd a ha
            simp only
            rw [memD]
            have hd' := (memD d).mp hd
            refine ⟨h.dirsAnc d hd'.1 a ha, ?_⟩
            intro hEq
            subst hEq
            obtain ⟨c, hc1, hc2, hc3⟩ := child_of_anc a d ha
            rcases hc3 with rfl | hc3
            · exact hno (Or.inr ⟨c, hd'.1, hc1, hc2⟩)
            · exact hno (Or.inr ⟨c, h.dirsAnc d hd'.1 c hc3, hc1, hc2⟩)
          · intro f hf hfd; exact h.disjoint f hf ((memD f.1).mp hfd).1
          · intro d hd hne
            have hd' := (memD d).mp hd
            rw [hasEntries_iff]
            rcases (hasEntries_iff t d).mp (h.nonEmpty d hd'.1 hd'.2) with ⟨f, hf1, hf2, hf3⟩ | ⟨e, he1, he2, he3⟩
            · exact Or.inl ⟨f, hf1, hf2, hf3⟩
            · refine Or.inr ⟨e, (memD e).mpr ⟨he1, ?_⟩, he2, he3⟩
              intro hEq; subst hEq; exact hne he3.symm
        · have : dir.dropLast.length = dir.length - 1 := List.length_dropLast
          omega

/-- **delete_inv**: deleting a key — present, absent or a directory — keeps the tree well-formed:
    in particular the directories a deleted key leaves empty are gone -/
theorem delete_inv (t : Tree) (k : Path) (hi : Inv t) : Inv (delete t k) := by
  unfold delete
  by_cases h1 : k.isEmpty = true
  · simp [h1, hi]
  · by_cases h2 : isDir t k = true
    · simp [h1, h2, hi]
    · simp only [h1, h2, Bool.false_eq_true, if_false]
      apply prune_inv
      · have memF : ∀ f, f ∈ t.files.filter (fun f => !(f.1 == k)) ↔ f ∈ t.files ∧ f.1 ≠ k := by
          intro f; simp [List.mem_filter]
        refine ⟨?_, ?_, ?_, hi.dirsNe, hi.dirsAnc, ?_, ?_⟩
        · intro f hf; exact hi.filesNe f ((memF f).mp hf).1
        · exact hi.uniq.sublist (List.Sublist.map _ List.filter_sublist)
        · intro f hf a ha; exact hi.anc f ((memF f).mp hf).1 a ha
        · intro f hf; exact hi.disjoint f ((memF f).mp hf).1
        · intro d hd hne
          rw [hasEntries_iff]
          rcases (hasEntries_iff t d).mp (hi.nonEmpty d hd) with ⟨f, hf1, hf2, hf3⟩ | ⟨e, he1, he2, he3⟩
          · by_cases hfk : f.1 = k
            · exfalso; apply hne; rw [← hf3, hfk]
            · exact Or.inl ⟨f, (memF f).mpr ⟨hf1, hfk⟩, hf2, hf3⟩
          · exact Or.inr ⟨e, he1, he2, he3⟩
      · have : k.dropLast.length = k.length - 1 := List.length_dropLast
        omega

/-! ### what the invariant means, and the frame -/

/-- no object lies below another object, and no object is a directory of others -/
theorem no_nested_objects (t : Tree) (hi : Inv t) (f g : Path × Bytes) (hf : f ∈ t.files) (hg : g ∈ t.files) :
    ¬ IsAnc f.1 g.1 := fun h => hi.disjoint f hf (hi.anc g hg f.1 h)

theorem find_filter_ne (l : List (Path × Bytes)) (k k' : Path) (hne : k' ≠ k) :
    (l.filter (fun f => !(f.1 == k))).find? (fun f => f.1 == k') = l.find? (fun f => f.1 == k') := by
  induction l with
  | nil => rfl
  | cons x xs ih =>
    rw [List.filter_cons]
    by_cases hx : (x.1 == k) = true
    · have hxk : x.1 = k := by simpa using hx
      have hxk' : (x.1 == k') = false := by rw [hxk]; simp; exact fun e => hne e.symm
      rw [if_neg (by simp [hx]), List.find?_cons, hxk']
      exact ih
    · rw [if_pos (by simp [hx]), List.find?_cons, List.find?_cons]
      by_cases hy : (x.1 == k') = true
      · simp only [hy]
      · have hy' : (x.1 == k') = false := by simpa using hy
        simp only [hy']
        exact ih

/-- an upload to `k` leaves the bytes of every other key alone -/
theorem put_frame (t : Tree) (k k' : Path) (body : Bytes) (t' : Tree) (h : put t k body = some t') (hne : k' ≠ k) :
    content t' k' = content t k' := by
  obtain ⟨_, _, _, hf, _⟩ := put_some t k body t' h
  unfold content
  rw [hf, List.find?_append]
  have h1 := find_filter_ne t.files k k' hne
  rw [h1]
  have h2 : (k == k') = false := by simp; exact fun e => hne e.symm
  cases hfind : t.files.find? (fun f => f.1 == k') with
  | some v => simp
  | none => simp [List.find?_cons, h2]

/-- after an accepted upload the key reads back the uploaded bytes -/
theorem put_get (t : Tree) (k : Path) (body : Bytes) (t' : Tree) (h : put t k body = some t') : content t' k = some body := by
  obtain ⟨_, _, _, hf, _⟩ := put_some t k body t' h
  unfold content
  rw [hf, List.find?_append]
  have : (t.files.filter (fun f => !(f.1 == k))).find? (fun f => f.1 == k) = none := by
    rw [List.find?_eq_none]
    intro x hx
    simp only [List.mem_filter, Bool.not_eq_true', beq_eq_false_iff_ne] at hx
    simpa using hx.2
  simp [this]

/-- pruning touches no file -/
theorem prune_files (fuel : Nat) : ∀ (t : Tree) (dir : Path), (prune t fuel dir).files = t.files := by
  induction fuel with
  | zero => intro t dir; rfl
  | succ fuel ih =>
    intro t dir
    unfold prune
    split
    · rfl
    · split
      · rfl
      · rw [ih]

/-- a delete of `k` leaves the bytes of every other key alone, and `k` itself reads as absent -/
theorem delete_frame (t : Tree) (k k' : Path) (hne : k' ≠ k) : content (delete t k) k' = content t k' := by
  unfold delete
  split
  · rfl
  · split
    · rfl
    · unfold content
      rw [prune_files]
      simp only
      rw [find_filter_ne t.files k k' hne]

theorem delete_get (t : Tree) (k : Path) (hk : k ≠ []) (hd : isDir t k = false) : content (delete t k) k = none := by
  unfold delete
  have : k.isEmpty = false := by cases k with | nil => exact absurd rfl hk | cons _ _ => rfl
  simp only [this, hd, Bool.false_eq_true, if_false]
  unfold content
  rw [prune_files]
  simp only [Option.map_eq_none_iff]
  rw [List.find?_eq_none]
  intro x hx
  simp only [List.mem_filter, Bool.not_eq_true', beq_eq_false_iff_ne] at hx
  simpa using hx.2

/-- histories of uploads and deletes on one bucket's tree -/
inductive FOp where
  | put (k : Path) (body : Bytes)
  | del (k : Path)

def fstep (t : Tree) : FOp → Tree
  | .put k body => (put t k body).getD t      -- a refused upload changes nothing
  | .del k => delete t k

/-- **tree_always_wellformed**: after ANY finite sequence of uploads (accepted or refused) and
    deletes, starting from an empty bucket, the directories are exactly what the objects need:
    every ancestor of an object is a directory, no directory is empty, no object is a directory
    or lies below another object. -/
theorem tree_always_wellformed (ops : List FOp) : ∀ t, Inv t → Inv (ops.foldl fstep t) := by
  induction ops with
  | nil => intro t h; exact h
  | cons op ops ih =>
    intro t h
    apply ih
    cases op with
    | put k body =>
      simp only [fstep]
      cases hp : put t k body with
      | none => exact h
      | some t' => exact put_inv t k body t' h hp
    | del k => exact delete_inv t k h

/-! Non-vacuity: a/b/c and a/d, then delete a/b/c: directory a/b goes, a stays. -/
example : (([FOp.put [[97], [98], [99]] [1], .put [[97], [100]] [2], .put [[97]] [3], .del [[97], [98], [99]]].foldl fstep Tree.empty).dirs,
    ([FOp.put [[97], [98], [99]] [1], .put [[97], [100]] [2], .put [[97]] [3], .del [[97], [98], [99]]].foldl fstep Tree.empty).files) =
    ([[[97]]], [([[97], [100]], [2])]) := by decide

end GFS.Props.FsInv
