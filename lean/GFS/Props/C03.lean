import GFS.Model.MemList
import GFS.Spec.Listing
set_option linter.unusedSimpArgs false
set_option linter.unusedVariables false
/-
  C03 — listings are the exact, sorted, correctly grouped view of the live keys.
-/
namespace GFS.Props.C03
open GFS GFS.Model

/-- a prefix without delimiter -/
def plain (pfx : Bytes) : Prefix := ⟨!pfx.isEmpty, pfx, false, 0⟩

/-- without a delimiter `Prefix.Match` is the string-prefix test of the specification -/
theorem match_plain (pfx key : Bytes) :
    ((plain pfx).match_ key).isSome = Bytes.hasPrefix key pfx ∧
    ∀ r, (plain pfx).match_ key = some r → r.1 = false := by
  unfold plain Prefix.match_
  cases pfx with
  | nil => simp [Bytes.hasPrefix]
  | cons c cs =>
    simp only [List.isEmpty_cons, Bool.not_false, Bool.not_true, Bool.false_and, Bool.false_eq_true, if_false, if_true]
    constructor
    · split <;> simp_all
    · intro r; split <;> simp_all
      intro h; rw [← h]

/-- the objects a plain listing shows: live (current version not a delete marker) and matching -/
def shown (pfx : Bytes) (objs : List (Key × Obj)) : List Content :=
  objs.filterMap fun (k, o) =>
    match o.data with
    | some d => if Bytes.hasPrefix k pfx && !d.marker then some ⟨k, d.body.length, d.hash⟩ else none
    | none => none

/-- **list_plain_exact**: the unpaginated, undelimited listing of a bucket in which every
    object has a current version is exactly the matching live keys, in the stored (ascending)
    order, each once, with the size and digest of the stored bytes; delete-marked keys are
    absent; nothing is reported truncated. -/
theorem list_plain_exact (pfx : Bytes) (objs : List (Key × Obj)) (cnt : Int) (last : Bytes) (acc : ObjectList)
    (hinv : ∀ p ∈ objs, p.2.data ≠ none) :
    listLoop (plain pfx) 0 objs cnt last acc =
      .ok { acc with contents := acc.contents ++ shown pfx objs } := by
  induction objs generalizing cnt last acc with
  | nil => simp [listLoop, shown]
  | cons p rest ih =>
    obtain ⟨k, o⟩ := p
    have hrest : ∀ p ∈ rest, p.2.data ≠ none := fun p hp => hinv p (List.mem_cons_of_mem _ hp)
    have hd : o.data ≠ none := hinv (k, o) (List.mem_cons_self ..)
    cases hdata : o.data with
    | none => exact absurd hdata hd
    | some d =>
      obtain ⟨hm1, hm2⟩ := match_plain pfx k
      unfold listLoop
      simp only [hdata]
      cases hmatch : (plain pfx).match_ k with
      | none =>
        have : Bytes.hasPrefix k pfx = false := by rw [← hm1, hmatch]; rfl
        simp only [shown, List.filterMap_cons, hdata, this, Bool.false_and, Bool.false_eq_true, if_false]
        exact ih cnt last acc hrest
      | some r =>
        obtain ⟨cp, mp⟩ := r
        have hcp : cp = false := hm2 (cp, mp) hmatch
        subst hcp
        have hpre : Bytes.hasPrefix k pfx = true := by rw [← hm1, hmatch]; rfl
        simp only
        cases hmk : d.marker with
        | true =>
          simp only [if_true, shown, List.filterMap_cons, hdata, hpre, hmk, Bool.not_true, Bool.and_false, Bool.false_eq_true, if_false]
          exact ih cnt last acc hrest
        | false =>
          have hgt : ¬ ((0 : Int) > 0 ∧ cnt + 1 ≥ 0) := by omega
          simp only [Bool.false_eq_true, if_false, Bool.false_and, hgt]
          rw [ih _ _ _ hrest]
          simp [shown, List.filterMap_cons, hdata, hpre, hmk, List.append_assoc, addEntry]

/-! Non-vacuity: two live keys and a delete-marked one. -/
example : listLoop (plain [97]) 0
    [([97], ⟨some ⟨1, false, [1, 2], [9], []⟩, []⟩), ([97, 98], ⟨some ⟨2, true, [], [], []⟩, []⟩), ([98], ⟨some ⟨3, false, [7], [8], []⟩, []⟩)]
    0 [] ⟨[], [], false, []⟩ = .ok ⟨[⟨[97], 2, [9]⟩], [], false, []⟩ := by
  rfl

end GFS.Props.C03
