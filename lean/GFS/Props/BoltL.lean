import GFS.Model.Bolt
import GFS.Props.C03
import GFS.Props.C03G
set_option linter.unusedSimpArgs false
set_option linter.unusedVariables false
/-
  C03 for s3bolt: the cursor loop of `ListBucket` produces exactly what the (unpaginated)
  s3mem loop produces on the same keys — so the theorems list_plain_exact / list_delim_exact
  (Contents = the matching keys in ascending order with size and digest; CommonPrefixes = the
  grouped keys, each once) hold for the bolt listing as well.
-/
namespace GFS.Props.BoltL
open GFS GFS.Model GFS.Model.Bolt GFS.Props.C03G

def objOf : BVal → BObj
  | .obj o => o
  | .bucketRec => ⟨[], [], []⟩

/-- a bolt bucket seen as a never-versioned s3mem bucket -/
def embed (kv : List (Bytes × BVal)) : List (Key × Obj) :=
  kv.map fun q => (q.1, ⟨some ⟨0, false, (objOf q.2).body, (objOf q.2).hash, (objOf q.2).md⟩, []⟩)

theorem bolt_loop_canonical (p : Prefix) (kv : List (Bytes × BVal)) : ∀ acc : ObjectList,
    Bolt.listLoop p kv acc =
      { acc with contents := acc.contents ++ contentsOf p (embed kv), prefixes := addAll acc.prefixes (cpsOf p (embed kv)) } := by
  induction kv with
  | nil => intro acc; simp [Bolt.listLoop, embed, contentsOf, cpsOf, addAll]
  | cons q rest ih =>
    intro acc
    obtain ⟨k, v⟩ := q
    unfold Bolt.listLoop
    cases hm : p.match_ k with
    | none =>
      simp only
      rw [ih acc]
      simp [embed, contentsOf, cpsOf, liveMatch, hm, List.filterMap_cons]
    | some r =>
      obtain ⟨cp, mp⟩ := r
      simp only
      rw [ih]
      cases cp with
      | true =>
        simp only [addEntry, if_true]
        cases v <;> simp [embed, contentsOf, cpsOf, liveMatch, hm, List.filterMap_cons, objOf, addAll_cons] <;>
          (split <;> simp_all)
      | false =>
        cases v <;> simp [addEntry, embed, contentsOf, cpsOf, liveMatch, hm, List.filterMap_cons, objOf, List.append_assoc]

/-- **bolt_list_eq_mem**: on every bucket content whose common prefixes are non-empty (no key
    starts with the delimiter), the bolt listing is the s3mem listing of the same keys -/
theorem bolt_list_eq_mem (p : Prefix) (kv : List (Bytes × BVal))
    (hne : ∀ q ∈ embed kv, ∀ mp, p.match_ q.1 = some (true, mp) → mp ≠ []) :
    Model.listLoop p 0 (embed kv) 0 [] ⟨[], [], false, []⟩ = .ok (Bolt.listLoop p kv ⟨[], [], false, []⟩) := by
  rw [listLoop_unpaged p (embed kv) 0 [] ⟨[], [], false, []⟩ (by intro q hq; simp [embed] at hq; obtain ⟨a, b, _, rfl⟩ := hq; simp) (Or.inl rfl) hne]
  rw [bolt_loop_canonical]


open GFS.Spec.Listing GFS.Props.C03M in
/-- **bolt_list_delim_exact**: list_delim_exact for the bolt cursor loop — for every delimiter,
    every prefix not starting with it and every bucket content whose keys neither start nor end
    with it: Contents are exactly the keys the specification lists as Contents, in cursor
    (ascending) order with stored size and digest; CommonPrefixes are exactly the values
    `prefix + segment up to and including the first delimiter`, each once; never truncated. -/
theorem bolt_list_delim_exact (hasP : Bool) (d : UInt8) (pfx : Bytes) (kv : List (Bytes × BVal))
    (hdom : ∀ q ∈ kv, q.1.head? ≠ some d ∧ q.1.getLast? ≠ some d) (hp : pfx.head? ≠ some d) :
    let r := Bolt.listLoop ⟨hasP, pfx, true, d⟩ kv ⟨[], [], false, []⟩
    r.truncated = false ∧
    r.contents = (embed kv).filterMap (fun q =>
        match live q, entryOf pfx (some d) q.1 with
        | some c, some (.content _) => some c
        | _, _ => none) ∧
    r.prefixes.Nodup ∧
    ∀ x, x ∈ r.prefixes ↔ ∃ q ∈ embed kv, (live q).isSome ∧ entryOf pfx (some d) q.1 = some (.cprefix x) := by
  have hdom' : ∀ q ∈ embed kv, q.1.head? ≠ some d ∧ q.1.getLast? ≠ some d := by
    intro q hq
    simp only [embed, List.mem_map] at hq
    obtain ⟨a, ha, rfl⟩ := hq
    exact hdom a ha
  have hinv : ∀ q ∈ embed kv, q.2.data ≠ none := by
    intro q hq
    simp only [embed, List.mem_map] at hq
    obtain ⟨a, ha, rfl⟩ := hq
    simp
  obtain ⟨r, hr, h1, h2, h3, h4⟩ := list_delim_exact hasP d pfx (embed kv) hinv hdom' hp
  have hne : ∀ q ∈ embed kv, ∀ mp, (⟨hasP, pfx, true, d⟩ : Prefix).match_ q.1 = some (true, mp) → mp ≠ [] := by
    intro q hq mp h
    rw [match_eq_entryOf hasP d pfx q.1 hp (hdom' q hq).1 (hdom' q hq).2] at h
    unfold specD at h
    cases he : entryOf pfx (some d) q.1 with
    | none => simp [he] at h
    | some e =>
      cases e with
      | content k => simp [he] at h
      | cprefix x =>
        simp only [he, Option.some.injEq, Prod.mk.injEq, true_and] at h
        subst h
        exact cprefix_ne_nil pfx q.1 x d he
  rw [bolt_list_eq_mem _ kv hne] at hr
  cases hr
  exact ⟨h1, h2, h3, h4⟩

/-- **bolt_list_plain_exact**: without a delimiter the bolt listing is exactly the keys that
    start with the prefix, in cursor (ascending) order, each once, with size and digest -/
theorem bolt_list_plain_exact (pfx : Bytes) (kv : List (Bytes × BVal)) :
    Bolt.listLoop (GFS.Props.C03.plain pfx) kv ⟨[], [], false, []⟩ =
      { contents := GFS.Props.C03.shown pfx (embed kv), prefixes := [], truncated := false, next := [] } := by
  have hinv : ∀ q ∈ embed kv, q.2.data ≠ none := by
    intro q hq
    simp only [embed, List.mem_map] at hq
    obtain ⟨a, ha, rfl⟩ := hq
    simp
  have h := GFS.Props.C03.list_plain_exact pfx (embed kv) 0 [] ⟨[], [], false, []⟩ hinv
  have hne : ∀ q ∈ embed kv, ∀ mp, (GFS.Props.C03.plain pfx).match_ q.1 = some (true, mp) → mp ≠ [] := by
    intro q hq mp hm
    have := (GFS.Props.C03.match_plain pfx q.1).2 (true, mp) hm
    simp at this
  rw [bolt_list_eq_mem _ kv hne] at h
  simpa using Res.ok.inj h

end GFS.Props.BoltL
