import GFS.Model.Uploader
set_option linter.unusedSimpArgs false
set_option linter.unusedVariables false
/-
  C15 — acknowledged state of the persistent backends survives restart.
  The model splits a server into the persistent part (buckets and objects: the bolt file, the
  object and metadata trees) and the volatile part (the in-memory multipart bookkeeping).
-/
namespace GFS.Props.C15
open GFS GFS.Model

structure Server where
  mem : Mem      -- persistent
  upl : Upl      -- volatile
deriving Repr

/-- closing the server and starting a new one on the same storage -/
def reopen (s : Server) : Server := { mem := s.mem, upl := Upl.empty }

/-- **reopen_preserves_objects**: every object-level observation (GET, HEAD, listing, bucket
    existence, bucket list) after a restart equals the one before it: the handlers that produce
    them read the persistent part only -/
theorem reopen_preserves_objects (cfg : Cfg) (s : Server) (b : Bytes) (k : Key) (vid : Option Nat) (isHead : Bool)
    (p : Prefix) (hasMarker : Bool) (marker : Bytes) (mk : Int) (v2 : Bool) :
    Front.getObject cfg (reopen s).mem b k vid isHead = Front.getObject cfg s.mem b k vid isHead ∧
    Front.listBucket cfg (reopen s).mem b p hasMarker marker mk v2 = Front.listBucket cfg s.mem b p hasMarker marker mk v2 ∧
    Front.headBucket cfg (reopen s).mem b = Front.headBucket cfg s.mem b ∧
    Front.listBuckets (reopen s).mem = Front.listBuckets s.mem :=
  ⟨rfl, rfl, rfl, rfl⟩

/-- a restart commutes with every later object write: writing after the restart gives the
    store that writing before it would have given -/
theorem reopen_commutes_put (md5 : Bytes → Bytes) (cfg : Cfg) (s : Server) (b : Bytes) (k : Key) (md : Meta) (body : Bytes) :
    Front.putObject md5 cfg (reopen s).mem b k md body = Front.putObject md5 cfg s.mem b k md body := rfl

/-- **reopen_forgets_uploads**: pending multipart uploads are volatile: after a restart every
    upload id answers NoSuchUpload (the statement lists buckets, keys, bodies, sizes, ETags and
    metadata as what survives; pending uploads are not among them) -/
theorem reopen_forgets_uploads (s : Server) (b : Bytes) (k : Key) (id : Nat) :
    (reopen s).upl.get b k id = .err .NoSuchUpload := by
  simp [reopen, Upl.get, Upl.empty]

example : (reopen ⟨(Mem.put id (Mem.createBucket Mem.empty [98]).1 [98] [107] [] [1, 2]).1, (Upl.create Upl.empty [98] [107] []).1⟩).mem.get [98] [107]
    = .ok ⟨1, false, [1, 2], [1, 2], []⟩ := by rfl

end GFS.Props.C15
