import GFS.Model.Front
import GFS.Spec.S3
set_option linter.unusedSimpArgs false
set_option linter.unusedVariables false
/-
  C02 — every operation sequence follows S3 bucket/object semantics.
  This file: the laws of the statement proved directly on the backend model, for every state
  (no invariant needed): read-your-write, delete, absent bucket, re-creation, frame.
-/
namespace GFS.Props.C02
open GFS GFS.Model

/-! ### buckets -/

/-- re-creating an existing bucket answers BucketAlreadyExists and changes nothing -/
theorem recreate_is_BucketAlreadyExists (m : Mem) (b : Bytes) (h : m.bucketExists b = true) :
    m.createBucket b = (m, .err .BucketAlreadyExists) := by
  unfold Mem.createBucket; unfold Mem.bucketExists at h; simp [h]

/-- a created bucket exists; every other bucket is as before -/
theorem create_then_exists (m : Mem) (b : Bytes) (h : m.bucketExists b = false) :
    (m.createBucket b).2 = .ok () ∧ (m.createBucket b).1.bucketExists b = true ∧
    ∀ b', b' ≠ b → (m.createBucket b).1.bucketExists b' = m.bucketExists b' := by
  unfold Mem.bucketExists at h
  have h' : (SMap.find m.buckets b).isSome = false := h
  unfold Mem.createBucket Mem.bucketExists
  simp only [h', Bool.false_eq_true, if_false]
  refine ⟨trivial, ?_, ?_⟩
  · simp [SMap.find_insert_self]
  · intro b' hb; simp [SMap.find_insert_ne _ _ _ _ (Ne.symm hb)]

/-- every object operation on an absent bucket answers NoSuchBucket and changes nothing -/
theorem absent_bucket_is_NoSuchBucket (md5 : Bytes → Bytes) (m : Mem) (b : Bytes) (k : Key) (md : Meta) (body : Bytes)
    (h : SMap.find m.buckets b = none) :
    m.get b k = .err .NoSuchBucket ∧ m.head b k = .err .NoSuchBucket ∧
    m.put md5 b k md body = (m, .err .NoSuchBucket) ∧ m.delete b k = (m, .err .NoSuchBucket) ∧
    m.deleteBucket b = (m, .err .NoSuchBucket) ∧ (∀ ks, m.deleteMulti b ks = (m, .err .NoSuchBucket)) := by
  simp [Mem.get, Mem.head, Mem.current, Mem.put, Mem.putCommit, Mem.delete, Mem.deleteBucket, Mem.deleteMulti, h]

/-- deleting a non-empty bucket answers BucketNotEmpty and changes nothing; an empty one goes -/
theorem delete_bucket_cases (m : Mem) (b : Bytes) (bk : Bucket) (h : SMap.find m.buckets b = some bk) :
    (bk.objects.isEmpty = false → m.deleteBucket b = (m, .err .BucketNotEmpty)) ∧
    (bk.objects.isEmpty = true → (m.deleteBucket b).2 = .ok () ∧ (m.deleteBucket b).1.bucketExists b = false) := by
  constructor
  · intro he; simp [Mem.deleteBucket, h, he]
  · intro he; simp [Mem.deleteBucket, h, he, Mem.bucketExists, SMap.find_erase_self]

/-! ### objects (never-versioned bucket) -/

/-- **read_your_write**: after an acknowledged put, get and head return exactly the bytes,
    the digest of the bytes, and every header that was sent -/
theorem read_your_write (md5 : Bytes → Bytes) (m : Mem) (b : Bytes) (k : Key) (md : Meta) (body : Bytes)
    (bk : Bucket) (h : SMap.find m.buckets b = some bk) :
    ∃ v, (m.put md5 b k md body).1.get b k = .ok v ∧ v.body = body ∧ v.hash = md5 body ∧ v.marker = false := by
  simp only [Mem.put, Mem.putCommit, h]
  simp only [Mem.get, Mem.current, SMap.find_insert_self, Bucket.put]
  simp

/-- **frame (objects)**: a put to `(b,k)` does not change what any other `(b',k')` returns -/
theorem put_frame (md5 : Bytes → Bytes) (m : Mem) (b b' : Bytes) (k k' : Key) (md : Meta) (body : Bytes)
    (hne : b ≠ b' ∨ k ≠ k') :
    (m.put md5 b k md body).1.get b' k' = m.get b' k' := by
  unfold Mem.put Mem.putCommit
  cases hb : SMap.find m.buckets b with
  | none => rfl
  | some bk =>
    simp only [Mem.get, Mem.current]
    by_cases hbb : b = b'
    · subst hbb
      have hk : k ≠ k' := by
        rcases hne with h | h
        · exact absurd rfl h
        · exact h
      simp only [SMap.find_insert_self, hb, Bucket.put, SMap.find_insert_ne _ _ _ _ hk]
    · simp only [SMap.find_insert_ne _ _ _ _ hbb]

/-- **deleted_is_NoSuchKey** (never-versioned bucket): after delete the key reads as NoSuchKey -/
theorem deleted_is_NoSuchKey (m : Mem) (b : Bytes) (k : Key) (bk : Bucket)
    (h : SMap.find m.buckets b = some bk) (hv : bk.versioning = .none)
    (hinv : ∀ o, SMap.find bk.objects k = some o → o.versions = []) :
    (m.delete b k).2 = .ok (false, none) ∧ (m.delete b k).1.get b k = .err .NoSuchKey := by
  simp only [Mem.delete, h, Bucket.rm]
  cases ho : SMap.find bk.objects k with
  | none =>
    simp [Mem.get, Mem.current, SMap.find_insert_self, ho]
  | some o =>
    have hvs := hinv o ho
    simp only [hv, Obj.promote, hvs]
    simp [Mem.get, Mem.current, SMap.find_insert_self, SMap.find_erase_self]

/-- **delete_idempotent**: deleting a key that is not there succeeds and changes no answer -/
theorem delete_missing_ok (m : Mem) (b : Bytes) (k k' : Key) (bk : Bucket)
    (h : SMap.find m.buckets b = some bk) (ho : SMap.find bk.objects k = none) :
    (m.delete b k).2 = .ok (false, none) ∧ (m.delete b k).1.get b k' = m.get b k' := by
  simp [Mem.delete, h, Bucket.rm, ho, Mem.get, Mem.current, SMap.find_insert_self]

/-! Non-vacuity: a store with one bucket holding one object meets the hypotheses above. -/
example : SMap.find (Mem.createBucket Mem.empty [98, 107, 116]).1.buckets [98, 107, 116] = some ⟨.none, []⟩ := by
  rfl

end GFS.Props.C02
