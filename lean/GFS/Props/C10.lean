import GFS.Model.Front
set_option linter.unusedSimpArgs false
set_option linter.unusedVariables false
/-
  C10 — buckets and keys are independent namespaces.
  Frame theorems on the backend model (memory, and bolt seen as the same map): an operation
  addressed to (b,k) does not change what any other (b',k') returns.
-/
namespace GFS.Props.C10
open GFS GFS.Model

/-- `bucket.rm` touches only the named key's entry, whatever the versioning state -/
theorem rm_find_other (bk : Bucket) (k k' : Key) (id : Nat) (h : k ≠ k') :
    SMap.find (bk.rm k id).1.objects k' = SMap.find bk.objects k' := by
  unfold Bucket.rm
  cases ho : SMap.find bk.objects k with
  | none => simp
  | some o =>
    simp only
    split
    · simp [Bucket.put, SMap.find_insert_ne _ _ _ _ h]
    · split
      · simp [SMap.find_erase_ne _ _ _ h]
      · simp [SMap.find_insert_ne _ _ _ _ h]

/-- **put_frame**: an upload to (b,k) changes no answer for any other (b',k') -/
theorem put_frame (md5 : Bytes → Bytes) (m : Mem) (b b' : Bytes) (k k' : Key) (md : Meta) (body : Bytes)
    (hne : b ≠ b' ∨ k ≠ k') :
    (m.put md5 b k md body).1.get b' k' = m.get b' k' := by
  unfold Mem.put Mem.putCommit
  cases hb : SMap.find m.buckets b with
  | none => rfl
  | some bk =>
    simp only [Mem.get, Mem.current]
    by_cases hbb : b = b'
    · subst hbb
      have hk : k ≠ k' := by
        rcases hne with h | h
        · exact absurd rfl h
        · exact h
      simp only [SMap.find_insert_self, hb, Bucket.put, SMap.find_insert_ne _ _ _ _ hk]
    · simp only [SMap.find_insert_ne _ _ _ _ hbb]

/-- **delete_frame**: a delete of (b,k) — plain, or creating a delete marker — changes no answer
    for any other (b',k') -/
theorem delete_frame (m : Mem) (b b' : Bytes) (k k' : Key) (hne : b ≠ b' ∨ k ≠ k') :
    (m.delete b k).1.get b' k' = m.get b' k' := by
  unfold Mem.delete
  cases hb : SMap.find m.buckets b with
  | none => rfl
  | some bk =>
    simp only [Mem.get, Mem.current]
    by_cases hbb : b = b'
    · subst hbb
      have hk : k ≠ k' := by
        rcases hne with h | h
        · exact absurd rfl h
        · exact h
      simp only [SMap.find_insert_self, hb, rm_find_other bk k k' _ hk]
    · simp only [SMap.find_insert_ne _ _ _ _ hbb]

theorem storeObj_find_other (bk : Bucket) (k k' : Key) (o : Obj) (h : k ≠ k') :
    SMap.find (bk.storeObj k o).objects k' = SMap.find bk.objects k' := by
  unfold Bucket.storeObj
  split
  · simp [SMap.find_erase_ne _ _ _ h]
  · simp [SMap.find_insert_ne _ _ _ _ h]

/-- **deleteVersion_frame**: deleting a specific version of k touches no other key -/
theorem rmVersion_find_other (bk : Bucket) (k k' : Key) (vid : Nat) (h : k ≠ k') :
    SMap.find (bk.rmVersion k vid).1.objects k' = SMap.find bk.objects k' := by
  unfold Bucket.rmVersion
  cases ho : SMap.find bk.objects k with
  | none => simp
  | some o => simp [storeObj_find_other _ _ _ _ h]

/-- **bucket operations frame**: creating or deleting bucket b changes no other bucket -/
theorem createBucket_frame (m : Mem) (b b' : Bytes) (k' : Key) (h : b ≠ b') :
    (m.createBucket b).1.get b' k' = m.get b' k' := by
  unfold Mem.createBucket
  split
  · rfl
  · simp [Mem.get, Mem.current, SMap.find_insert_ne _ _ _ _ h]

theorem deleteBucket_frame (m : Mem) (b b' : Bytes) (k' : Key) (h : b ≠ b') :
    (m.deleteBucket b).1.get b' k' = m.get b' k' := by
  unfold Mem.deleteBucket
  cases hb : SMap.find m.buckets b with
  | none => rfl
  | some bk =>
    simp only
    split
    · rfl
    · simp [Mem.get, Mem.current, SMap.find_erase_ne _ _ _ h]

/-- **keys_opaque**: keys that differ as byte strings name different objects: storing under one
    leaves the other exactly as it was, even when they differ by a single byte, a '.', a '..'
    segment or a trailing character — the store compares byte strings and nothing else -/
theorem keys_opaque (md5 : Bytes → Bytes) (m : Mem) (b : Bytes) (k k' : Key) (md : Meta) (body : Bytes) (h : k ≠ k') :
    (m.put md5 b k md body).1.get b k' = m.get b k' :=
  put_frame md5 m b b k k' md body (Or.inr h)

/-! Non-vacuity: "a/../b" and "b" are different keys. -/
example : ([97, 47, 46, 46, 47, 98] : Bytes) ≠ [98] := by decide

end GFS.Props.C10
