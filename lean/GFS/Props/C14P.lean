import GFS.Props.C14U
import GFS.Lemmas.Order
set_option linter.unusedSimpArgs false
set_option linter.unusedVariables false
/-
  C14, paging of ListMultipartUploads: following the (NextKeyMarker, NextUploadIdMarker) a truncated
  page returns visits every pending upload of the unpaginated listing exactly once, for every page
  size.  Same shape as Props/C13W: the uploads of a listing are a flat list `F`; a page without
  marker takes the next `c` of them and stops where `cut` says; the returned markers name that
  place and a request carrying them runs the marker-free loop on what is left; induction on the
  number of uploads left.
-/
namespace GFS.Props.C14P
open GFS GFS.Model GFS.Model.Upl GFS.Props.C14U

abbrev Idx := List (Key × List Nat)

def F (p : Prefix) (idx : Idx) : List UploadItem := idx.flatMap (uploadsOfKey p)

theorem F_cons_nomatch (p : Prefix) (k : Key) (ids : List Nat) (rest : Idx)
    (h : ∀ mp, p.match_ k ≠ some (false, mp)) : F p ((k, ids) :: rest) = F p rest := by
  unfold F
  simp only [List.flatMap_cons, uploadsOfKey]
  cases hm : p.match_ k with
  | none => simp
  | some r =>
    obtain ⟨cp, mp⟩ := r
    cases cp with
    | true => simp
    | false => exact absurd hm (h mp)

theorem F_cons_match (p : Prefix) (k : Key) (ids : List Nat) (rest : Idx) (mp : Bytes)
    (h : p.match_ k = some (false, mp)) :
    F p ((k, ids) :: rest) = ids.map (fun i => ⟨k, i⟩) ++ F p rest := by
  unfold F
  simp [List.flatMap_cons, uploadsOfKey, h]

/-- the inner loop with room for `c ≥ 1` more uploads -/
theorem take_page (L : Int) (k : Key) (is : List Nat) (cnt : Int) (c : Nat)
    (hc : (c : Int) = L - cnt) (hc1 : 1 ≤ c) (acc : UploadList) :
    listUploadsLoop.take L k is cnt acc =
      if is.length < c then ({ acc with uploads := acc.uploads ++ is.map (fun i => ⟨k, i⟩) }, cnt + is.length, false)
      else match is.drop c with
        | [] => ({ acc with uploads := acc.uploads ++ (is.take c).map (fun i => ⟨k, i⟩) }, cnt + c, true)
        | j :: _ => ({ acc with uploads := acc.uploads ++ (is.take c).map (fun i => ⟨k, i⟩), truncated := true, nextKey := k, nextId := some j },
                     cnt + c, true) := by
  induction is generalizing cnt c acc with
  | nil =>
    have : (0 : Nat) < c := by omega
    simp [listUploadsLoop.take, this]
  | cons i more ih =>
    unfold listUploadsLoop.take
    by_cases h1 : c = 1
    · subst h1
      have : cnt + 1 ≥ L := by omega
      simp only [this, if_true]
      have h3 : ¬ ((i :: more).length < 1) := by simp
      simp only [h3, if_false, List.drop_succ_cons, List.drop_zero, List.take_succ_cons, List.take_zero, List.map_cons, List.map_nil]
      cases more with
      | nil => simp
      | cons j t => simp
    · have : ¬ cnt + 1 ≥ L := by omega
      simp only [this, if_false]
      rw [ih (cnt + 1) (c - 1) (by omega) (by omega)]
      by_cases h2 : more.length < c - 1
      · have h3 : (i :: more).length < c := by simp; omega
        simp only [h2, h3, if_true, List.map_cons, List.append_assoc, List.singleton_append]
        simp only [List.length_cons, Prod.mk.injEq, and_true, true_and]
        push_cast; omega
      · have h3 : ¬ ((i :: more).length < c) := by simp; omega
        simp only [h2, h3, if_false]
        obtain ⟨c', rfl⟩ : ∃ c', c = c' + 1 := ⟨c - 1, by omega⟩
        simp only [List.take_succ_cons, List.drop_succ_cons, List.map_cons, List.append_assoc, List.singleton_append, Nat.add_sub_cancel]
        cases more.drop c' with
        | nil => simp; omega
        | cons j t => simp; omega

/-- the index from the first key that would add something to a listing that has reported `seen` -/
def skipU (p : Prefix) (seen : List Bytes) : Idx → Idx
  | [] => []
  | (k, ids) :: rest =>
    match p.match_ k with
    | some (false, _) => (k, ids) :: rest
    | some (true, mp) => if seen.contains mp then skipU p seen rest else (k, ids) :: rest
    | none => skipU p seen rest

theorem moreAfter_eq (p : Prefix) (seen : List Bytes) (l : Idx) :
    moreAfter p seen l = (match skipU p seen l with
      | [] => none
      | (k, ids) :: _ => some (k, ids.head?)) := by
  induction l with
  | nil => simp [moreAfter, skipU]
  | cons q rest ih =>
    obtain ⟨k, ids⟩ := q
    unfold moreAfter skipU
    cases p.match_ k with
    | none => simpa using ih
    | some r =>
      obtain ⟨cp, mp⟩ := r
      cases cp with
      | false => simp
      | true =>
        simp only
        split
        · simpa using ih
        · simp

theorem skipU_spec (p : Prefix) (seen : List Bytes) (l : Idx) (k' : Key) (ids' : List Nat) (t : Idx)
    (h : skipU p seen l = (k', ids') :: t) : (p.match_ k').isSome ∧ ∃ pre, l = pre ++ (k', ids') :: t := by
  induction l with
  | nil => simp [skipU] at h
  | cons q rest ih =>
    obtain ⟨k, ids⟩ := q
    unfold skipU at h
    cases hm : p.match_ k with
    | none =>
      simp only [hm] at h
      obtain ⟨h1, pre, h2⟩ := ih h
      exact ⟨h1, (k, ids) :: pre, by simp [h2]⟩
    | some r =>
      obtain ⟨cp, mp⟩ := r
      cases cp with
      | false =>
        simp only [hm] at h
        injection h with h1 h2
        injection h1 with h3 h4
        subst h3 h4 h2
        exact ⟨by simp [hm], [], rfl⟩
      | true =>
        simp only [hm] at h
        by_cases hs : seen.contains mp = true
        · simp only [hs, if_true] at h
          obtain ⟨h1, pre, h2⟩ := ih h
          exact ⟨h1, (k, ids) :: pre, by simp [h2]⟩
        · simp only [hs, if_false] at h
          injection h with h1 h2
          injection h1 with h3 h4
          subst h3 h4 h2
          exact ⟨by simp [hm], [], rfl⟩

theorem F_skipU (p : Prefix) (seen : List Bytes) (l : Idx) : F p (skipU p seen l) = F p l := by
  induction l with
  | nil => simp [skipU]
  | cons q rest ih =>
    obtain ⟨k, ids⟩ := q
    unfold skipU
    cases hm : p.match_ k with
    | none => simp only; rw [ih, F_cons_nomatch p k ids rest (by simp [hm])]
    | some r =>
      obtain ⟨cp, mp⟩ := r
      cases cp with
      | false => rfl
      | true =>
        simp only
        split
        · rw [ih, F_cons_nomatch p k ids rest (by simp [hm])]
        · rfl

def addSeen (seen : List Bytes) (mp : Bytes) : List Bytes := if seen.contains mp then seen else seen ++ [mp]

/-- what is left to list after `c ≥ 1` more uploads, having reported the prefixes `seen` -/
def cut (p : Prefix) : List Bytes → Nat → Idx → Idx
  | _, _, [] => []
  | seen, c, (k, ids) :: rest =>
    match p.match_ k with
    | some (false, _) =>
      if c < ids.length then (k, ids.drop c) :: rest
      else if c = ids.length then skipU p seen rest
      else cut p seen (c - ids.length) rest
    | some (true, mp) => cut p (addSeen seen mp) c rest
    | none => cut p seen c rest

theorem F_cut (p : Prefix) (idx : Idx) :
    ∀ (seen : List Bytes) (c : Nat), 1 ≤ c → F p (cut p seen c idx) = (F p idx).drop c := by
  induction idx with
  | nil => intro seen c _; simp [cut, F]
  | cons q rest ih =>
    intro seen c hc
    obtain ⟨k, ids⟩ := q
    unfold cut
    cases hm : p.match_ k with
    | none => simp only; rw [ih seen c hc, F_cons_nomatch p k ids rest (by simp [hm])]
    | some r =>
      obtain ⟨cp, mp⟩ := r
      cases cp with
      | true => simp only; rw [ih _ c hc, F_cons_nomatch p k ids rest (by simp [hm])]
      | false =>
        simp only
        rw [F_cons_match p k ids rest mp hm]
        by_cases h1 : c < ids.length
        · simp only [h1, if_true]
          rw [F_cons_match p k (ids.drop c) rest mp hm, List.drop_append_of_le_length (by simp; omega), List.map_drop]
        · simp only [h1, if_false]
          by_cases h2 : c = ids.length
          · simp only [h2, if_true]
            rw [F_skipU]
            simp [List.drop_append]
          · simp only [h2, if_false]
            rw [ih seen (c - ids.length) (by omega), List.drop_append]
            have : List.drop c (List.map (fun i => (⟨k, i⟩ : UploadItem)) ids) = [] := by
              apply List.drop_eq_nil_of_le; simp; omega
            simp [this]

/-- what a page reports about its end, given what `cut` leaves -/
def EndsAs (r acc : UploadList) (left : Idx) : Prop :=
  match left with
  | [] => r.truncated = acc.truncated ∧ r.nextKey = acc.nextKey ∧ r.nextId = acc.nextId
  | (k', ids') :: _ => r.truncated = true ∧ r.nextKey = k' ∧ r.nextId = ids'.head?

theorem EndsAs_congr {r acc acc' : UploadList} {left : Idx}
    (h1 : acc'.truncated = acc.truncated) (h2 : acc'.nextKey = acc.nextKey) (h3 : acc'.nextId = acc.nextId)
    (h : EndsAs r acc' left) : EndsAs r acc left := by
  cases left with
  | nil => simpa [EndsAs, h1, h2, h3] using h
  | cons q _ => obtain ⟨k', o'⟩ := q; simpa [EndsAs] using h

/-- **one page without marker** -/
theorem page (p : Prefix) (L : Int) (idx : Idx) :
    ∀ (cnt : Int) (c : Nat), (c : Int) = L - cnt → 1 ≤ c → ∀ (acc : UploadList), acc.truncated = false →
    let r := listUploadsLoop p L idx none cnt acc
    r.uploads = acc.uploads ++ (F p idx).take c ∧ EndsAs r acc (cut p acc.prefixes c idx) := by
  induction idx with
  | nil => intro cnt c hc hc1 acc ht; simp [listUploadsLoop, F, cut, EndsAs]
  | cons q rest ih =>
    intro cnt c hc hc1 acc ht
    obtain ⟨k, ids⟩ := q
    unfold listUploadsLoop cut
    cases hm : p.match_ k with
    | none =>
      simp only
      rw [F_cons_nomatch p k ids rest (by simp [hm])]
      exact ih cnt c hc hc1 acc ht
    | some r0 =>
      obtain ⟨cp, mp⟩ := r0
      cases cp with
      | true =>
        simp only [Bool.false_eq_true, if_false, if_true]
        rw [F_cons_nomatch p k ids rest (by simp [hm])]
        have := ih cnt c hc hc1 (if acc.prefixes.contains mp then acc else { acc with prefixes := acc.prefixes ++ [mp] })
          (by split <;> simp [ht])
        obtain ⟨h2, h3⟩ := this
        refine ⟨?_, ?_⟩
        · rw [h2]; split <;> rfl
        · have hp : (if acc.prefixes.contains mp then acc else { acc with prefixes := acc.prefixes ++ [mp] }).prefixes = addSeen acc.prefixes mp := by
            unfold addSeen; split <;> rfl
          rw [hp] at h3
          refine EndsAs_congr ?_ ?_ ?_ h3 <;> (split <;> rfl)
      | false =>
        simp only [Bool.false_eq_true, if_false]
        rw [F_cons_match p k ids rest mp hm, take_page L k ids cnt c hc hc1]
        by_cases h1 : ids.length < c
        · have h1' : ¬ c < ids.length := by omega
          have h1'' : ¬ c = ids.length := by omega
          simp only [h1, h1', h1'', if_true, if_false, Bool.false_eq_true]
          have := ih (cnt + ids.length) (c - ids.length) (by omega) (by omega)
            { acc with uploads := acc.uploads ++ ids.map (fun i => ⟨k, i⟩) } ht
          obtain ⟨e2, e3⟩ := this
          refine ⟨?_, ?_⟩
          · rw [e2]
            simp only [List.append_assoc]
            have htk : List.take c (List.map (fun i => (⟨k, i⟩ : UploadItem)) ids) = List.map (fun i => ⟨k, i⟩) ids :=
              List.take_of_length_le (by simp; omega)
            rw [List.take_append, htk]
            simp
          · exact EndsAs_congr rfl rfl rfl e3
        · simp only [h1, if_false]
          by_cases h2 : c < ids.length
          · simp only [h2, if_true]
            obtain ⟨j, t, hj⟩ : ∃ j t, ids.drop c = j :: t := by
              cases hh : ids.drop c with
              | nil => have := List.drop_eq_nil_iff.mp hh; omega
              | cons j t => exact ⟨j, t, rfl⟩
            simp only [hj, if_true]
            refine ⟨?_, ?_⟩
            · rw [List.take_append_of_le_length (by simp; omega), List.map_take]
            · simp [EndsAs]
          · have h3 : c = ids.length := by omega
            simp only [h2, h3, if_true, if_false, List.drop_length, Nat.lt_irrefl, ht, Bool.false_eq_true]
            rw [moreAfter_eq]
            have htake : List.take ids.length (List.map (fun i => (⟨k, i⟩ : UploadItem)) ids ++ F p rest)
                = List.map (fun i => ⟨k, i⟩) ids := by
              rw [List.take_append_of_le_length (by simp)]
              rw [List.take_of_length_le (by simp)]
            cases hs : skipU p acc.prefixes rest with
            | nil => simp [EndsAs, htake, List.take_length, ht]
            | cons q' _ =>
              obtain ⟨k', ids'⟩ := q'
              simp [EndsAs, htake, List.take_length]


/-! ### Markers name the place where `cut` stopped -/

/-- the index invariant: keys ascending and non-empty, every key with at least one upload id,
    no id twice under one key -/
def Good (O : Idx) : Prop :=
  SMap.Sorted O ∧ (∀ q ∈ O, q.2 ≠ [] ∧ q.2.Nodup) ∧ ∀ q ∈ O, q.1 ≠ []

/-- `S` is what remains of `O` from some key on; its first key may have lost leading ids -/
def Suf (O S : Idx) : Prop :=
  match S with
  | [] => True
  | (k, ids') :: rest => ∃ pre ids0 dr, O = pre ++ (k, ids0) :: rest ∧ ids0 = dr ++ ids'

theorem suf_of_plain (O pre S : Idx) (h : O = pre ++ S) : Suf O S := by
  cases S with
  | nil => trivial
  | cons q rest => obtain ⟨k, ids⟩ := q; exact ⟨pre, ids, [], h, by simp⟩

theorem suf_tail (O : Idx) (k : Key) (ids' : List Nat) (rest : Idx) (h : Suf O ((k, ids') :: rest)) : Suf O rest := by
  obtain ⟨pre, ids0, dr, h1, _⟩ := h
  exact suf_of_plain O (pre ++ [(k, ids0)]) rest (by simp [h1])

theorem cut_suf (p : Prefix) (O : Idx) (S : Idx) :
    ∀ (seen : List Bytes) (c : Nat), Suf O S → Suf O (cut p seen c S) := by
  induction S with
  | nil => intro seen c _; simp [cut, Suf]
  | cons q rest ih =>
    intro seen c hS
    obtain ⟨k, ids'⟩ := q
    have ht := suf_tail O k ids' rest hS
    unfold cut
    cases hm : p.match_ k with
    | none => exact ih seen c ht
    | some r =>
      obtain ⟨cp, mp⟩ := r
      cases cp with
      | true => exact ih _ c ht
      | false =>
        simp only
        by_cases h1 : c < ids'.length
        · simp only [h1, if_true]
          obtain ⟨pre, ids0, dr, e1, e3⟩ := hS
          exact ⟨pre, ids0, dr ++ ids'.take c, e1, by simp [e3, List.append_assoc, List.take_append_drop]⟩
        · simp only [h1, if_false]
          by_cases h2 : c = ids'.length
          · simp only [h2, if_true]
            cases hs : skipU p seen rest with
            | nil => trivial
            | cons q2 t =>
              obtain ⟨k2, i2⟩ := q2
              obtain ⟨_, pre2, e⟩ := skipU_spec p seen rest k2 i2 t hs
              obtain ⟨pre, ids0, dr, e1, _⟩ := hS
              exact suf_of_plain O (pre ++ (k, ids0) :: pre2) _ (by simp [e1, e])
          · simp only [h2, if_false]
            exact ih _ _ ht

/-- where `cut` stops, the key matches the prefix; its remaining ids are a non-empty part of a stored list -/
theorem cut_head (p : Prefix) (S : Idx) (hne : ∀ q ∈ S, q.2 ≠ []) :
    ∀ (seen : List Bytes) (c : Nat) (k' : Key) (ids' : List Nat) (t : Idx), cut p seen c S = (k', ids') :: t →
      (p.match_ k').isSome ∧ ids' ≠ [] := by
  induction S with
  | nil => intro seen c k' ids' t h; simp [cut] at h
  | cons q rest ih =>
    intro seen c k' ids' t h
    obtain ⟨k, ids⟩ := q
    have hne' : ∀ q ∈ rest, q.2 ≠ [] := fun q hq => hne q (by simp [hq])
    unfold cut at h
    cases hm : p.match_ k with
    | none => simp only [hm] at h; exact ih hne' seen c k' ids' t h
    | some r =>
      obtain ⟨cp, mp⟩ := r
      cases cp with
      | true => simp only [hm] at h; exact ih hne' _ c k' ids' t h
      | false =>
        simp only [hm] at h
        by_cases h1 : c < ids.length
        · simp only [h1, if_true] at h
          injection h with h2 h3
          injection h2 with h4 h5
          subst h4 h5
          refine ⟨by simp [hm], ?_⟩
          intro hd
          have := List.drop_eq_nil_iff.mp hd
          omega
        · simp only [h1, if_false] at h
          by_cases h2 : c = ids.length
          · simp only [h2, if_true] at h
            obtain ⟨hm', pre, e⟩ := skipU_spec p seen rest k' ids' t h
            exact ⟨hm', hne' (k', ids') (by rw [e]; simp)⟩
          · simp only [h2, if_false] at h
            exact ih hne' _ _ k' ids' t h

theorem cut_len (p : Prefix) (S : Idx) :
    ∀ (seen : List Bytes) (c : Nat), cut p seen c S ≠ [] → c ≤ (F p S).length := by
  induction S with
  | nil => intro seen c h; simp [cut] at h
  | cons q rest ih =>
    intro seen c h
    obtain ⟨k, ids⟩ := q
    unfold cut at h
    cases hm : p.match_ k with
    | none =>
      simp only [hm] at h
      rw [F_cons_nomatch p k ids rest (by simp [hm])]; exact ih seen c h
    | some r =>
      obtain ⟨cp, mp⟩ := r
      cases cp with
      | true =>
        simp only [hm] at h
        rw [F_cons_nomatch p k ids rest (by simp [hm])]; exact ih _ c h
      | false =>
        simp only [hm] at h
        rw [F_cons_match p k ids rest mp hm]
        simp only [List.length_append, List.length_map]
        by_cases h1 : c < ids.length
        · omega
        · by_cases h2 : c = ids.length
          · omega
          · simp only [h1, h2, if_false] at h
            have := ih _ _ h
            omega

theorem filter_from_key (pre rest : Idx) (k : Key) (ids0 : List Nat)
    (hs : SMap.Sorted (pre ++ (k, ids0) :: rest)) :
    (pre ++ (k, ids0) :: rest).filter (fun q => !Bytes.lt q.1 k) = (k, ids0) :: rest := by
  unfold SMap.Sorted at hs
  obtain ⟨_, h2, h3⟩ := List.pairwise_append.mp hs
  have hrest : ∀ q ∈ rest, Bytes.lt k q.1 = true := fun q hq => (List.pairwise_cons.mp h2).1 q hq
  have hpre : ∀ q ∈ pre, Bytes.lt q.1 k = true := fun q hq => h3 q hq (k, ids0) (by simp)
  rw [List.filter_append]
  have e1 : pre.filter (fun q => !Bytes.lt q.1 k) = [] := by
    rw [List.filter_eq_nil_iff]; intro q hq; simp [hpre q hq]
  have e2 : ((k, ids0) :: rest).filter (fun q => !Bytes.lt q.1 k) = (k, ids0) :: rest := by
    rw [List.filter_eq_self]
    intro q hq
    rcases List.mem_cons.mp hq with rfl | hq
    · simp [Bytes.lt_irrefl]
    · simp [Bytes.lt_asymm _ _ (hrest q hq)]
  rw [e1, e2]; rfl

theorem dropWhile_to (dr : List Nat) (j : Nat) (t : List Nat) (h : j ∉ dr) :
    (dr ++ j :: t).dropWhile (fun i => !(i == j)) = j :: t := by
  have hdr : ∀ a ∈ dr, (!(a == j)) = true := by
    intro a ha
    have : a ≠ j := fun e => h (e ▸ ha)
    simp [this]
  rw [List.dropWhile_append_of_pos hdr]
  simp [List.dropWhile_cons]

/-- **resume**: a request carrying the markers a page returned continues exactly where `cut` stopped -/
theorem resume (p : Prefix) (L : Int) (O : Idx) (hG : Good O)
    (k' : Key) (ids' : List Nat) (rest' : Idx) (hS : Suf O ((k', ids') :: rest'))
    (j : Nat) (t : List Nat) (hj : ids' = j :: t) (hm : (p.match_ k').isSome) (acc : UploadList) :
    listUploadsLoop p L (O.filter (fun q => !Bytes.lt q.1 k')) (some j) 0 acc =
      listUploadsLoop p L ((k', ids') :: rest') none 0 acc := by
  obtain ⟨pre, ids0, dr, e1, e3⟩ := hS
  obtain ⟨hsorted, hok, _⟩ := hG
  subst e1
  rw [filter_from_key pre rest' k' ids0 hsorted]
  have hnd : ids0.Nodup := (hok (k', ids0) (by simp)).2
  have hjn : j ∉ dr := by
    rw [e3, hj] at hnd
    exact fun hmem => (List.nodup_append.mp hnd).2.2 j hmem j (by simp) rfl
  have hc : ids0.contains j = true := by simp [e3, hj]
  have hd : ids0.dropWhile (fun i => !(i == j)) = ids' := by
    rw [e3, hj]; exact dropWhile_to dr j t hjn
  obtain ⟨mm, hmm⟩ := Option.isSome_iff_exists.mp hm
  obtain ⟨cp, mp⟩ := mm
  unfold listUploadsLoop
  simp only [hmm, hc, if_true, hd, Bool.false_eq_true, if_false]


/-- the pages of a walk along the returned markers -/
def walk (u : Upl) (b : Bytes) (p : Prefix) (L : Int) : Nat → Bytes → Option Nat → List UploadList
  | 0, _, _ => []
  | n + 1, km, im =>
    match u.listUploads b p km im L with
    | .ok r => if r.truncated then r :: walk u b p L n r.nextKey r.nextId else [r]
    | _ => []

theorem walk_from (u : Upl) (b : Bytes) (bu : BUps) (hb : SMap.find u.buckets b = some bu) (p : Prefix)
    (L : Int) (hL : 1 ≤ L) (hG : Good bu.index) :
    ∀ (fuel : Nat) (S : Idx) (km : Bytes) (im : Option Nat),
      Suf bu.index S → (∀ q ∈ S, q.2 ≠ []) →
      ((km = [] ∧ S = bu.index) ∨ ∃ k' j t rest', S = (k', j :: t) :: rest' ∧ km = k' ∧ im = some j ∧ (p.match_ k').isSome) →
      (F p S).length < fuel →
      (walk u b p L fuel km im).flatMap (·.uploads) = F p S ∧
      (walk u b p L fuel km im).getLast?.map (·.truncated) = some false ∧
      ∀ r ∈ walk u b p L fuel km im, (r.uploads.length : Int) ≤ L := by
  intro fuel
  induction fuel with
  | zero => intro S km im _ _ _ h; omega
  | succ n ih =>
    intro S km im hS hne hN hlen
    have hreq : u.listUploads b p km im L = .ok (listUploadsLoop p L S none 0 ⟨[], [], false, [], none⟩) := by
      unfold Upl.listUploads
      simp only [hb]
      rcases hN with ⟨h1, h3⟩ | ⟨k', j, t, rest', h1, h2, h4, hm⟩
      · subst h1 h3; simp
      · subst h1 h4
        rw [h2]
        have hk : k' ≠ [] := by
          obtain ⟨pre, ids0, dr, e1, _⟩ := hS
          exact hG.2.2 (k', ids0) (by rw [e1]; simp)
        have hke : k'.isEmpty = false := by cases k' <;> simp_all
        simp only [hke, Bool.false_eq_true, if_false]
        rw [resume p L bu.index hG k' (j :: t) rest' hS j t rfl hm]
    have hpage := page p L S 0 L.toNat (by omega) (by omega) ⟨[], [], false, [], none⟩ rfl
    obtain ⟨hent, hend⟩ := hpage
    have hcut := F_cut p S [] L.toNat (by omega)
    unfold walk
    rw [hreq]
    simp only
    cases hc : cut p [] L.toNat S with
    | nil =>
      simp only [hc] at hend hcut
      have htr : (listUploadsLoop p L S none 0 ⟨[], [], false, [], none⟩).truncated = false := by simpa [EndsAs] using hend.1
      have hall : (F p S).take L.toNat = F p S := by
        have : (F p S).drop L.toNat = [] := by simpa [F] using hcut.symm
        exact List.take_of_length_le (List.drop_eq_nil_iff.mp this)
      simp only [htr, Bool.false_eq_true, if_false, List.flatMap_cons, List.flatMap_nil, List.append_nil]
      refine ⟨by rw [hent, hall]; simp, by simp [htr], ?_⟩
      intro r' hr'
      simp only [List.mem_singleton] at hr'
      subst hr'
      rw [hent]; simp only [List.nil_append, List.length_take]; omega
    | cons q t =>
      obtain ⟨k', ids'⟩ := q
      simp only [hc] at hend hcut
      obtain ⟨hmk, hidne⟩ := cut_head p S hne [] L.toNat k' ids' t hc
      obtain ⟨j, tl, hj⟩ : ∃ j tl, ids' = j :: tl := by
        cases ids' with
        | nil => exact absurd rfl hidne
        | cons j tl => exact ⟨j, tl, rfl⟩
      have hS' : Suf bu.index ((k', ids') :: t) := hc ▸ cut_suf p bu.index S [] L.toNat hS
      have hne' : ∀ q ∈ (k', ids') :: t, q.2 ≠ [] := by
        intro q hq
        rcases List.mem_cons.mp hq with rfl | hq
        · exact hidne
        · obtain ⟨pre, ids0, dr, e1, _⟩ := hS'
          exact (hG.2.1 q (by rw [e1]; simp [hq])).1
      have hlen' := cut_len p S [] L.toNat (by rw [hc]; simp)
      obtain ⟨ht1, ht2, ht3⟩ : (listUploadsLoop p L S none 0 ⟨[], [], false, [], none⟩).truncated = true ∧
          (listUploadsLoop p L S none 0 ⟨[], [], false, [], none⟩).nextKey = k' ∧
          (listUploadsLoop p L S none 0 ⟨[], [], false, [], none⟩).nextId = some j := by
        simpa [EndsAs, hj] using hend
      simp only [ht1, if_true, ht2, ht3]
      have hlen2 : (F p ((k', ids') :: t)).length < n := by
        rw [hcut, List.length_drop]; omega
      obtain ⟨i1, i2, i3⟩ := ih ((k', ids') :: t) k' (some j) hS' hne'
        (Or.inr ⟨k', j, tl, t, by rw [hj], rfl, rfl, hmk⟩) hlen2
      refine ⟨?_, ?_, ?_⟩
      · simp only [List.flatMap_cons, i1, hent, List.nil_append, hcut, List.take_append_drop]
      · cases hw : walk u b p L n k' (some j) with
        | nil => rw [hw] at i2; simp at i2
        | cons a l => rw [hw] at i2; rw [List.getLast?_cons_cons]; exact i2
      · intro r' hr'
        rcases List.mem_cons.mp hr' with rfl | hr'
        · rw [hent]; simp only [List.nil_append, List.length_take]; omega
        · exact i3 r' hr'

/-- **uploads_walk_exact**: for every uploader state whose index satisfies the invariant, every
    prefix and delimiter and every page size `L ≥ 1`: the pages obtained by starting without
    marker and passing back the (NextKeyMarker, NextUploadIdMarker) of each truncated page carry,
    concatenated, exactly the uploads of the unpaginated listing (`listUploads_exact`: the pending
    uploads of every listed key, by key then by initiation, each once), end with a page that is
    not truncated, and never exceed `L` uploads. -/
theorem uploads_walk_exact (u : Upl) (b : Bytes) (bu : BUps) (hb : SMap.find u.buckets b = some bu) (p : Prefix)
    (L : Int) (hL : 1 ≤ L) (hG : Good bu.index) :
    let pages := walk u b p L ((bu.index.flatMap (uploadsOfKey p)).length + 1) [] none
    pages.flatMap (·.uploads) = bu.index.flatMap (uploadsOfKey p) ∧
    pages.getLast?.map (·.truncated) = some false ∧
    ∀ r ∈ pages, (r.uploads.length : Int) ≤ L :=
  walk_from u b bu hb p L hL hG _ bu.index [] none (suf_of_plain _ [] _ rfl) (fun q hq => (hG.2.1 q hq).1)
    (Or.inl ⟨rfl, rfl⟩) (by unfold F; omega)

/-! Non-vacuity: keys `a` (uploads 1, 3), `d/x` (2, grouped under `d/` by the delimiter), `e` (4); pages of one. -/
def exUpl : Upl := ⟨[([98], ⟨[], [([97], [1, 3]), ([100, 47, 120], [2]), ([101], [4])]⟩)], 4⟩

example : Good [(([97] : Bytes), [1, 3]), ([100, 47, 120], [2]), ([101], [4])] := by
  refine ⟨?_, ?_, ?_⟩
  · unfold SMap.Sorted; decide
  · intro q hq
    simp only [List.mem_cons, List.mem_nil_iff, or_false] at hq
    rcases hq with rfl | rfl | rfl <;> simp
  · intro q hq
    simp only [List.mem_cons, List.mem_nil_iff, or_false] at hq
    rcases hq with rfl | rfl | rfl <;> simp

example : (walk exUpl [98] ⟨false, [], true, 47⟩ 1 4 [] none).map (fun r => (r.uploads.map (·.id), r.prefixes, r.truncated, r.nextKey, r.nextId)) =
    [([1], [], true, [97], some 3), ([3], [], true, [100, 47, 120], some 2), ([4], [[100, 47]], false, [], none)] := by decide

end GFS.Props.C14P
