import GFS.Model.Front
set_option linter.unusedSimpArgs false
set_option linter.unusedVariables false
/-
  C01 — stored objects come back byte-for-byte with matching size, ETag and metadata.
  All theorems are parametric in the digest function `md5`.
-/
namespace GFS.Props.C01
open GFS GFS.Model

/-- `MergeMetadata` never changes or drops a header of the new request -/
theorem mergeMeta_keeps_new (new old : Meta) (k v : Bytes) (h : SMap.find new k = some v) :
    SMap.find (mergeMeta new old) k = some v := by
  unfold mergeMeta
  induction old generalizing new with
  | nil => simpa using h
  | cons p rest ih =>
    simp only [List.foldl_cons]
    apply ih
    split
    · exact h
    · rename_i hn
      by_cases hk : p.1 = k
      · subst hk; simp [h] at hn
      · rw [SMap.find_insert_ne _ _ _ _ hk]; exact h

/-- what GET must return for an upload of `body` with headers `sent` -/
def GetOk (md5 : Bytes → Bytes) (body : Bytes) (sent : Meta) (out : Out) : Prop :=
  ∃ vid md, out = .object body (md5 body) vid md ∧ ∀ k v, SMap.find sent k = some v → SMap.find md k = some v

/-- **put_get_roundtrip**: for every state, every configuration, every key within the key
    limit, every header set and every body: if the upload handler acknowledges, then GET and HEAD
    of that key return exactly the uploaded bytes (hence Content-Length = their count), the ETag
    `md5 body`, and every sent header unchanged. -/
theorem put_get_roundtrip (md5 : Bytes → Bytes) (cfg : Cfg) (m : Mem) (b : Bytes) (k : Key) (sent : Meta) (body : Bytes)
    (m' : Mem) (h vid) (hput : Front.putObject md5 cfg m b k sent body = (m', .stored h vid)) (isHead : Bool) :
    h = md5 body ∧ GetOk md5 body sent (Front.getObject cfg m' b k none isHead).2 := by
  unfold Front.putObject Front.withBucket at hput
  -- the bucket exists (possibly after auto-creation) in the state `m1` the put runs on
  cases he : Front.ensureBucket cfg m b with
  | mk m1 r =>
    rw [he] at hput
    cases r with
    | err c => simp at hput
    | panic s => simp at hput
    | ok u =>
      simp only at hput
      split at hput
      · simp at hput
      · cases hp : Mem.put md5 m1 b k sent body with
        | mk m2 r2 =>
          rw [hp] at hput
          cases r2 with
          | err c => simp at hput
          | panic s => simp at hput
          | ok v =>
            simp only [Prod.mk.injEq, Out.stored.injEq] at hput
            obtain ⟨hm, hh, hv⟩ := hput
            subst hm
            refine ⟨hh.symm, ?_⟩
            -- unfold the put: the bucket is there, the object is inserted
            unfold Mem.put Mem.putCommit at hp
            cases hb : SMap.find m1.buckets b with
            | none => rw [hb] at hp; simp at hp
            | some bk =>
              rw [hb] at hp
              simp only [Prod.mk.injEq, Res.ok.injEq] at hp
              obtain ⟨hm2, _⟩ := hp
              have hmd : ∀ k' v', SMap.find sent k' = some v' →
                  SMap.find (Mem.mergedMeta m1 b k sent) k' = some v' := by
                intro k' v' hs
                unfold Mem.mergedMeta
                cases hc : Mem.current m1 b k with
                | ok old => exact mergeMeta_keeps_new sent old.md k' v' hs
                | err c => exact hs
                | panic s => exact hs
              revert hmd hm2
              generalize Mem.mergedMeta m1 b k sent = mdv
              intro hm2 hmd
              have hget : Mem.get m2 b k = .ok ⟨m1.nextVer + 1, false, body, md5 body, mdv⟩ := by
                rw [← hm2]
                simp [Mem.get, Mem.current, SMap.find_insert_self, Bucket.put]
              have hget' : ∃ md, Mem.get m2 b k = .ok ⟨m1.nextVer + 1, false, body, md5 body, md⟩ ∧
                  ∀ k' v', SMap.find sent k' = some v' → SMap.find md k' = some v' := ⟨mdv, hget, hmd⟩
              have hex : Mem.bucketExists m2 b = true := by
                rw [← hm2]; simp [Mem.bucketExists, SMap.find_insert_self]
              unfold Front.getObject Front.withBucket Front.ensureBucket
              simp only [hex, if_true]
              obtain ⟨md, hg, hsub⟩ := hget'
              simp only [hg]
              exact ⟨_, md, rfl, hsub⟩

/-! Non-vacuity: an upload into an existing bucket is acknowledged. -/
example : (Front.putObject id {} (Mem.createBucket Mem.empty [98, 107, 116]).1 [98, 107, 116] [107] [] [1, 2, 3]).2
    = .stored [1, 2, 3] none := by rfl

end GFS.Props.C01
