import GFS.Spec.NameSpec
import GFS.Lemmas.BytesLemmas
set_option linter.unusedSimpArgs false
/-
  C17 — bucket names are accepted exactly when they satisfy the documented rules.
-/
namespace GFS.Props.C17
open GFS GFS.Bytes GFS.Model GFS.Spec

theorem midc_dot : midc 46 = true := by decide

theorem midc_eq_ldh (c : UInt8) (h : c ≠ 46) : midc c = ldh c := by
  unfold midc ldh
  have : (c == 46) = false := by simpa using h
  simp [this]

/-- on a dot-free string the pattern of the code is the label rule of the statement -/
theorem patMatch_iff_labelOk (l : Bytes) (hl : (46 : UInt8) ∉ l) :
    patMatch l = true ↔ LabelOk l := by
  have hall : l.all midc = true ↔ ∀ c ∈ l, ldh c = true := by
    rw [List.all_eq_true]
    constructor
    · intro h c hc
      have hne : c ≠ 46 := fun e => hl (e ▸ hc)
      rw [← midc_eq_ldh c hne]; exact h c hc
    · intro h c hc
      have hne : c ≠ 46 := fun e => hl (e ▸ hc)
      rw [midc_eq_ldh c hne]; exact h c hc
  unfold patMatch LabelOk
  simp only [Bool.and_eq_true, decide_eq_true_eq]
  constructor
  · rintro ⟨⟨⟨h1, h2⟩, h3⟩, h4⟩
    exact ⟨h1, hall.mp h4, h2, h3⟩
  · rintro ⟨h1, h2, h3, h4⟩
    exact ⟨⟨⟨h1, h3⟩, h4⟩, hall.mpr h2⟩

/-- if every label matches the pattern then so does the whole name (the whole-name test
    of the code is implied by the per-label tests; it never rejects a name on its own) -/
theorem labels_imply_whole (s : Bytes) (h3 : 3 ≤ s.length)
    (h : ∀ l ∈ splitOn1 46 s, patMatch l = true) : patMatch s = true := by
  have hne := splitOn1_ne_nil 46 s
  have hall : s.all midc = true := by
    rw [all_splitOn1 midc 46 midc_dot s, List.all_eq_true]
    intro l hl
    have := h l hl
    unfold patMatch at this
    simp only [Bool.and_eq_true] at this
    exact this.2
  -- first label
  have hhead : s.head?.any alnum = true := by
    cases hsp : splitOn1 46 s with
    | nil => exact absurd hsp hne
    | cons l ls =>
      have hm := h l (by rw [hsp]; simp)
      unfold patMatch at hm
      simp only [Bool.and_eq_true, decide_eq_true_eq] at hm
      have hlne : l ≠ [] := by intro e; subst e; simp at hm
      rw [head_splitOn1 46 s l ls hsp hlne]
      exact hm.1.1.2
  have hlast : s.getLast?.any alnum = true := by
    have hg := getLast_splitOn1 46 s
    cases hl : (splitOn1 46 s).getLast? with
    | none => simp [List.getLast?_eq_none_iff] at hl; exact absurd hl hne
    | some l =>
      have hmem : l ∈ splitOn1 46 s := List.mem_of_getLast? hl
      have hm := h l hmem
      unfold patMatch at hm
      simp only [Bool.and_eq_true, decide_eq_true_eq] at hm
      have hlne : l.isEmpty = false := by
        cases l with
        | nil => simp at hm
        | cons _ _ => rfl
      rw [hl] at hg
      simp only [Option.bind_some, Option.any_some, hlne, Bool.not_false, if_true] at hg
      rw [← hg]
      exact hm.1.2
  unfold patMatch
  simp only [Bool.and_eq_true, decide_eq_true_eq]
  exact ⟨⟨⟨h3, hhead⟩, hlast⟩, hall⟩

/-- **validate_iff_spec**: for every byte string, `ValidateBucketName` accepts it exactly
    when it satisfies the documented rule. -/
theorem validate_iff_spec (s : Bytes) : validateBucketName s = true ↔ NameOk s := by
  have hlab : (∀ l ∈ splitOn1 46 s, patMatch l = true) ↔ (∀ l ∈ splitOn1 46 s, LabelOk l) := by
    constructor
    · intro h l hl; exact (patMatch_iff_labelOk l (splitOn1_no_sep 46 s l hl)).mp (h l hl)
    · intro h l hl; exact (patMatch_iff_labelOk l (splitOn1_no_sep 46 s l hl)).mpr (h l hl)
  unfold validateBucketName NameOk FormattedAsIP
  constructor
  · intro h
    split at h
    · simp at h
    · rename_i hlen
      split at h
      · simp at h
      · split at h
        · simp at h
        · rename_i hip
          rw [List.all_eq_true] at h
          refine ⟨by omega, by omega, hlab.mp h, hip⟩
  · rintro ⟨h1, h2, h3, h4⟩
    have hl := hlab.mpr h3
    have hw := labels_imply_whole s h1 hl
    have hlen : ¬ (s.length < 3 ∨ s.length > 63) := by omega
    simp only [hlen, if_false, hw, Bool.not_true, Bool.false_eq_true, h4]
    rw [List.all_eq_true]; exact hl

/-! Non-vacuity and the cases the statement names. -/
-- "abc"
example : validateBucketName [97, 98, 99] = true := by decide
-- "my-bucket.data1"
example : validateBucketName [109,121,45,98,117,99,107,101,116,46,100,97,116,97,49] = true := by decide
-- "ab" too short, "a.bcd" short label, "ab..cd" empty label, "Abc" upper case, "-ab" leading hyphen
example : validateBucketName [97, 98] = false := by decide
example : validateBucketName [97, 46, 98, 99, 100] = false := by decide
example : validateBucketName [97, 98, 99, 46, 46, 99, 100, 101] = false := by decide
example : validateBucketName [65, 98, 99] = false := by decide
example : validateBucketName [45, 97, 98] = false := by decide
-- "100.200.100.200" is formatted as an IP address; "100.200.100.256" is not
example : validateBucketName [49,48,48,46,50,48,48,46,49,48,48,46,50,48,48] = false := by decide
example : validateBucketName [49,48,48,46,50,48,48,46,49,48,48,46,50,53,54] = true := by decide
example : NameOk [97, 98, 99] := (validate_iff_spec _).mp (by decide)

end GFS.Props.C17
