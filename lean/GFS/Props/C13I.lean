import GFS.Props.C13W
import GFS.Lemmas.SMapLemmas
set_option linter.unusedSimpArgs false
set_option linter.unusedVariables false
/-
  C13: the store invariant `Good` that the paging theorem (Props/C13W) assumes is kept by every
  operation of the s3mem model: keys ascending, every object with a current version, archived ids
  strictly ascending and below the current one, every id at most the generator's counter.
-/
namespace GFS.Props.C13I
open GFS GFS.Model GFS.Props.C13W

def ObjB (N : Nat) (o : Obj) : Prop :=
  ∃ d, o.data = some d ∧ o.versions.Pairwise (fun a b => a.id < b.id) ∧ (∀ v ∈ o.versions, v.id < d.id) ∧ d.id ≤ N

def BInv (N : Nat) (bk : Bucket) : Prop := SMap.Sorted bk.objects ∧ ∀ q ∈ bk.objects, ObjB N q.2

def MInv (m : Mem) : Prop := ∀ q ∈ m.buckets, BInv m.nextVer q.2

theorem ObjB_mono {N N' : Nat} (h : N ≤ N') {o : Obj} (ho : ObjB N o) : ObjB N' o := by
  obtain ⟨d, h1, h2, h3, h4⟩ := ho
  exact ⟨d, h1, h2, h3, by omega⟩

theorem BInv_mono {N N' : Nat} (h : N ≤ N') {bk : Bucket} (hb : BInv N bk) : BInv N' bk :=
  ⟨hb.1, fun q hq => ObjB_mono h (hb.2 q hq)⟩

theorem ObjB_ok {N : Nat} {o : Obj} (h : ObjB N o) : ObjOK o := by
  obtain ⟨d, h1, h2, h3, _⟩ := h
  exact ⟨d, h1, h2, h3⟩

theorem find_mem_key {α} (m : SMap α) (k : Bytes) (v : α) (h : SMap.find m k = some v) : (k, v) ∈ m := by
  induction m with
  | nil => simp at h
  | cons q rest ih =>
    obtain ⟨k', v'⟩ := q
    unfold SMap.find at h
    by_cases hk : (k' == k) = true
    · simp only [hk, if_true, Option.some.injEq] at h
      have : k' = k := by simpa using hk
      subst this h
      exact List.mem_cons_self ..
    · simp only [hk, if_false] at h
      exact List.mem_cons_of_mem _ (ih h)

theorem insertVer_append (vs : List Ver) (d : Ver) (h : ∀ v ∈ vs, v.id < d.id) : insertVer vs d = vs ++ [d] := by
  induction vs with
  | nil => rfl
  | cons w ws ih =>
    have hw := h w (by simp)
    unfold insertVer
    have h1 : (w.id == d.id) = false := by simp; omega
    have h2 : ¬ d.id < w.id := by omega
    simp only [h1, Bool.false_eq_true, if_false, h2]
    rw [ih (fun v hv => h v (by simp [hv]))]
    rfl

theorem put_inv (N : Nat) (bk : Bucket) (name : Key) (item : Ver) (h : BInv N bk) (hid : N < item.id) :
    BInv item.id (bk.put name item) := by
  obtain ⟨hs, ho⟩ := h
  unfold Bucket.put
  refine ⟨SMap.sorted_insert _ _ _ hs, ?_⟩
  intro q hq
  rcases SMapL.mem_insert _ _ _ q hq with rfl | hq
  · simp only
    cases hf : SMap.find bk.objects name with
    | none =>
      simp only [hf, Option.getD_none]
      refine ⟨item, rfl, ?_, ?_, Nat.le_refl _⟩
      · split <;> simp
      · split <;> simp
    | some o =>
      obtain ⟨d, h1, h2, h3, h4⟩ := ho (name, o) (find_mem_key _ _ _ hf)
      dsimp only at h1 h2 h3
      simp only [hf, Option.getD_some, h1]
      refine ⟨item, rfl, ?_, ?_, Nat.le_refl _⟩
      · dsimp only
        split
        · rw [insertVer_append _ _ h3]
          rw [List.pairwise_append]
          exact ⟨h2, by simp, fun a ha b hb => by simp at hb; subst hb; exact h3 a ha⟩
        · exact h2
      · dsimp only
        split
        · rw [insertVer_append _ _ h3]
          intro v hv
          rcases List.mem_append.mp hv with hv | hv
          · have := h3 v hv; omega
          · simp at hv; subst hv; omega
        · intro v hv; have := h3 v hv; omega
  · exact ObjB_mono (by omega) (ho q hq)

/-- `promote` of an object that has just lost its current version -/
theorem promote_inv (N : Nat) (vs : List Ver) (hpw : vs.Pairwise (fun a b => a.id < b.id)) (hb : ∀ v ∈ vs, v.id ≤ N)
    (hne : vs ≠ []) : ObjB N (({ data := none, versions := vs } : Obj).promote) := by
  unfold Obj.promote
  simp only
  obtain ⟨l, hl⟩ : ∃ l, vs.getLast? = some l := by
    cases h : vs.getLast? with
    | none => exact absurd (List.getLast?_eq_none_iff.mp h) hne
    | some l => exact ⟨l, rfl⟩
  simp only [hl]
  have hsplit : vs = vs.dropLast ++ [l] := by
    have := List.dropLast_concat_getLast hne
    rw [List.getLast?_eq_some_getLast hne] at hl
    simp only [Option.some.injEq] at hl
    rw [hl] at this
    exact this.symm
  refine ⟨l, rfl, ?_, ?_, ?_⟩
  · rw [hsplit] at hpw; exact (List.pairwise_append.mp hpw).1
  · intro v hv
    rw [hsplit] at hpw
    exact (List.pairwise_append.mp hpw).2.2 v hv l (by simp)
  · exact hb l (by rw [hsplit]; simp)

theorem promote_nil : (({ data := none, versions := [] } : Obj).promote).data = none := by
  simp [Obj.promote]

theorem rm_inv (N : Nat) (bk : Bucket) (name : Key) (fresh : Nat) (h : BInv N bk) (hid : N < fresh) :
    BInv fresh (bk.rm name fresh).1 := by
  unfold Bucket.rm
  cases hf : SMap.find bk.objects name with
  | none => exact BInv_mono (by omega) h
  | some o =>
    simp only
    split
    · exact put_inv N bk name _ h hid
    · obtain ⟨d, h1, h2, h3, h4⟩ := h.2 (name, o) (find_mem_key _ _ _ hf)
      dsimp only at h1 h2 h3
      by_cases hne : o.versions = []
      · have : (({ o with data := none } : Obj).promote).data = none := by
          simp [Obj.promote, hne]
        simp only [this]
        exact BInv_mono (N := N) (by omega) ⟨SMap.sorted_erase _ _ h.1, fun q hq => h.2 q (SMapL.mem_erase _ _ q hq)⟩
      · have hp := promote_inv N o.versions h2 (fun v hv => by have := h3 v hv; omega) hne
        have heq : ({ o with data := none } : Obj) = { data := none, versions := o.versions } := rfl
        rw [heq]
        obtain ⟨d', e1, e2, e3, e4⟩ := hp
        simp only [e1]
        refine BInv_mono (N := N) (by omega) ⟨SMap.sorted_insert _ _ _ h.1, ?_⟩
        intro q hq
        rcases SMapL.mem_insert _ _ _ q hq with rfl | hq
        · exact ⟨d', e1, e2, e3, e4⟩
        · exact h.2 q hq


theorem storeObj_inv (N : Nat) (bk : Bucket) (name : Key) (o : Obj) (h : BInv N bk)
    (ho : (o.data = none ∧ o.versions = []) ∨ ObjB N o) : BInv N (bk.storeObj name o) := by
  unfold Bucket.storeObj
  rcases ho with ⟨h1, h2⟩ | ho
  · simp only [h1, h2, Option.isNone_none, List.isEmpty_nil, Bool.and_self, if_true]
    exact ⟨SMap.sorted_erase _ _ h.1, fun q hq => h.2 q (SMapL.mem_erase _ _ q hq)⟩
  · obtain ⟨d, h1, _⟩ := id ho
    simp only [h1, Option.isNone_some, Bool.false_and, Bool.false_eq_true, if_false]
    refine ⟨SMap.sorted_insert _ _ _ h.1, ?_⟩
    intro q hq
    rcases SMapL.mem_insert _ _ _ q hq with rfl | hq
    · exact ho
    · exact h.2 q hq

theorem filter_objB (N : Nat) (o : Obj) (f : Ver → Bool) (h : ObjB N o) :
    ObjB N { o with versions := o.versions.filter f } := by
  obtain ⟨d, h1, h2, h3, h4⟩ := h
  exact ⟨d, h1, h2.filter _, fun v hv => h3 v (List.mem_filter.mp hv).1, h4⟩

theorem drop_current (N : Nat) (o : Obj) (h : ObjB N o) :
    (((({ o with data := none } : Obj).promote).data = none ∧ (({ o with data := none } : Obj).promote).versions = []) ∨
      ObjB N (({ o with data := none } : Obj).promote)) := by
  obtain ⟨d, h1, h2, h3, h4⟩ := h
  by_cases hne : o.versions = []
  · left; simp [Obj.promote, hne]
  · right
    exact promote_inv N o.versions h2 (fun v hv => by have := h3 v hv; omega) hne

theorem rmVersion_inv (N : Nat) (bk : Bucket) (name : Key) (vid : Nat) (h : BInv N bk) :
    BInv N (bk.rmVersion name vid).1 := by
  unfold Bucket.rmVersion
  cases hf : SMap.find bk.objects name with
  | none => exact h
  | some o =>
    have ho := h.2 (name, o) (find_mem_key _ _ _ hf)
    dsimp only at ho
    obtain ⟨d, h1, _⟩ := id ho
    simp only [h1]
    by_cases hv : (d.id == vid) = true
    · simp only [hv, if_true]
      exact storeObj_inv N bk name _ h (drop_current N o ho)
    · simp only [hv, if_false]
      cases hfind : o.versions.find? (·.id == vid) with
      | some v =>
        simp only [hfind]
        have := filter_objB N o (fun w => !(w.id == vid)) ho
        simp only [h1] at this
        exact storeObj_inv N bk name _ h (Or.inr this)
      | none =>
        simp only [hfind]
        exact storeObj_inv N bk name _ h (Or.inr ho)

/-! ### the operations of the store -/

theorem insert_bucket_inv (m : Mem) (b : Bytes) (bk : Bucket) (N : Nat) (hm : MInv m) (hN : m.nextVer ≤ N) (hb : BInv N bk) :
    MInv { buckets := SMap.insert m.buckets b bk, nextVer := N } := by
  intro q hq
  rcases SMapL.mem_insert _ _ _ q hq with rfl | hq
  · exact hb
  · exact BInv_mono hN (hm q hq)

theorem empty_inv : MInv Mem.empty := by intro q hq; simp [Mem.empty] at hq

theorem createBucket_inv (m : Mem) (b : Bytes) (h : MInv m) : MInv (m.createBucket b).1 := by
  unfold Mem.createBucket
  split
  · exact h
  · exact insert_bucket_inv m b _ m.nextVer h (Nat.le_refl _) ⟨SMap.sorted_nil, by simp⟩

theorem erase_bucket_inv (m : Mem) (b : Bytes) (h : MInv m) : MInv { m with buckets := SMap.erase m.buckets b } :=
  fun q hq => h q (SMapL.mem_erase _ _ q hq)

theorem deleteBucket_inv (m : Mem) (b : Bytes) (h : MInv m) : MInv (m.deleteBucket b).1 := by
  unfold Mem.deleteBucket
  split
  · exact h
  · split
    · exact h
    · exact erase_bucket_inv m b h

theorem forceDeleteBucket_inv (m : Mem) (b : Bytes) (h : MInv m) : MInv (m.forceDeleteBucket b).1 := by
  unfold Mem.forceDeleteBucket
  split
  · exact h
  · exact erase_bucket_inv m b h

theorem putCommit_inv (md5 : Bytes → Bytes) (m : Mem) (b : Bytes) (k : Key) (md : Meta) (body : Bytes) (h : MInv m) :
    MInv (m.putCommit md5 b k md body).1 := by
  unfold Mem.putCommit
  cases hf : SMap.find m.buckets b with
  | none => exact h
  | some bk =>
    exact insert_bucket_inv m b _ (m.nextVer + 1) h (by omega)
      (put_inv m.nextVer bk k ⟨m.nextVer + 1, false, body, md5 body, md⟩ (h (b, bk) (find_mem_key _ _ _ hf)) (by simp))

theorem put_inv' (md5 : Bytes → Bytes) (m : Mem) (b : Bytes) (k : Key) (md : Meta) (body : Bytes) (h : MInv m) :
    MInv (m.put md5 b k md body).1 := putCommit_inv md5 m b k _ body h

theorem delete_inv (m : Mem) (b : Bytes) (k : Key) (h : MInv m) : MInv (m.delete b k).1 := by
  unfold Mem.delete
  cases hf : SMap.find m.buckets b with
  | none => exact h
  | some bk =>
    have hbk := h (b, bk) (find_mem_key _ _ _ hf)
    have hrm := rm_inv m.nextVer bk k (m.nextVer + 1) hbk (by omega)
    simp only
    by_cases hd : (bk.rm k (m.nextVer + 1)).2.2.2 = true
    · simp only [hd, if_true]
      exact insert_bucket_inv m b _ (m.nextVer + 1) h (by omega) hrm
    · simp only [hd, if_false]
      -- no id was drawn: the bucket keeps the bound
      refine insert_bucket_inv m b _ m.nextVer h (Nat.le_refl _) ?_
      unfold Bucket.rm at hd hrm ⊢
      cases hfo : SMap.find bk.objects k with
      | none => simpa [hfo] using hbk
      | some o =>
        simp only [hfo] at hd hrm ⊢
        by_cases he : (bk.versioning == .enabled) = true
        · simp [he] at hd
        · simp only [he, if_false] at hrm ⊢
          obtain ⟨d, h1, h2, h3, h4⟩ := hbk.2 (k, o) (find_mem_key _ _ _ hfo)
          dsimp only at h1 h2 h3
          have hdc := drop_current m.nextVer o ⟨d, h1, h2, h3, h4⟩
          rcases hdc with ⟨e1, e2⟩ | hob
          · simp only [e1]
            exact ⟨SMap.sorted_erase _ _ hbk.1, fun q hq => hbk.2 q (SMapL.mem_erase _ _ q hq)⟩
          · obtain ⟨d', e1, _⟩ := id hob
            simp only [e1]
            refine ⟨SMap.sorted_insert _ _ _ hbk.1, ?_⟩
            intro q hq
            rcases SMapL.mem_insert _ _ _ q hq with rfl | hq
            · exact hob
            · exact hbk.2 q hq

theorem deleteVersion_inv (m : Mem) (b : Bytes) (k : Key) (vid : Nat) (h : MInv m) : MInv (m.deleteVersion b k vid).1 := by
  unfold Mem.deleteVersion
  cases hf : SMap.find m.buckets b with
  | none => exact h
  | some bk =>
    exact insert_bucket_inv m b _ m.nextVer h (Nat.le_refl _) (rmVersion_inv m.nextVer bk k vid (h (b, bk) (find_mem_key _ _ _ hf)))

theorem deleteFold_inv (b : Bytes) (ks : List Key) : ∀ m, MInv m → MInv (ks.foldl (fun acc k => (Mem.delete acc b k).1) m) := by
  induction ks with
  | nil => intro m h; exact h
  | cons k ks ih => intro m h; exact ih _ (delete_inv m b k h)

theorem deleteMulti_inv (m : Mem) (b : Bytes) (ks : List Key) (h : MInv m) : MInv (m.deleteMulti b ks).1 := by
  unfold Mem.deleteMulti
  split
  · exact h
  · exact deleteFold_inv b ks m h

theorem deleteVFold_inv (b : Bytes) (objs : List (Key × Option Nat)) : ∀ m, MInv m →
    MInv (objs.foldl (fun acc (p : Key × Option Nat) =>
        match p.2 with
        | some vid => (Mem.deleteVersion acc b p.1 vid).1
        | none => (Mem.delete acc b p.1).1) m) := by
  induction objs with
  | nil => intro m h; exact h
  | cons q qs ih =>
    intro m h
    simp only [List.foldl_cons]
    apply ih
    cases hq : q.2 with
    | none => simp only; exact delete_inv m b q.1 h
    | some vid => simp only; exact deleteVersion_inv m b q.1 vid h

theorem deleteMultiVersions_inv (m : Mem) (b : Bytes) (objs : List (Key × Option Nat)) (h : MInv m) :
    MInv (m.deleteMultiVersions b objs).1 := by
  unfold Mem.deleteMultiVersions
  split
  · exact h
  · exact deleteVFold_inv b objs m h

theorem setVersioning_inv (m : Mem) (b : Bytes) (e : Bool) (h : MInv m) : MInv (m.setVersioning b e).1 := by
  unfold Mem.setVersioning
  cases hf : SMap.find m.buckets b with
  | none => exact h
  | some bk =>
    have hbk := h (b, bk) (find_mem_key _ _ _ hf)
    exact insert_bucket_inv m b _ m.nextVer h (Nat.le_refl _) ⟨hbk.1, hbk.2⟩

/-- the mutating operations of the store -/
inductive Op where
  | createBucket (b : Bytes)
  | deleteBucket (b : Bytes)
  | forceDeleteBucket (b : Bytes)
  | put (b : Bytes) (k : Key) (md : Meta) (body : Bytes)
  | delete (b : Bytes) (k : Key)
  | deleteVersion (b : Bytes) (k : Key) (vid : Nat)
  | deleteMulti (b : Bytes) (ks : List Key)
  | deleteMultiVersions (b : Bytes) (objs : List (Key × Option Nat))
  | setVersioning (b : Bytes) (enabled : Bool)

def step (md5 : Bytes → Bytes) (m : Mem) : Op → Mem
  | .createBucket b => (m.createBucket b).1
  | .deleteBucket b => (m.deleteBucket b).1
  | .forceDeleteBucket b => (m.forceDeleteBucket b).1
  | .put b k md body => (m.put md5 b k md body).1
  | .delete b k => (m.delete b k).1
  | .deleteVersion b k vid => (m.deleteVersion b k vid).1
  | .deleteMulti b ks => (m.deleteMulti b ks).1
  | .deleteMultiVersions b objs => (m.deleteMultiVersions b objs).1
  | .setVersioning b e => (m.setVersioning b e).1

theorem step_inv (md5 : Bytes → Bytes) (m : Mem) (op : Op) (h : MInv m) : MInv (step md5 m op) := by
  cases op with
  | createBucket b => exact createBucket_inv m b h
  | deleteBucket b => exact deleteBucket_inv m b h
  | forceDeleteBucket b => exact forceDeleteBucket_inv m b h
  | put b k md body => exact put_inv' md5 m b k md body h
  | delete b k => exact delete_inv m b k h
  | deleteVersion b k vid => exact deleteVersion_inv m b k vid h
  | deleteMulti b ks => exact deleteMulti_inv m b ks h
  | deleteMultiVersions b objs => exact deleteMultiVersions_inv m b objs h
  | setVersioning b e => exact setVersioning_inv m b e h

/-- **store_always_good**: after any sequence of store operations from the empty store, every
    bucket satisfies the object part of `Good` (keys ascending; every object has a current
    version; archived ids strictly ascending and below the current one) -/
theorem store_always_good (md5 : Bytes → Bytes) (ops : List Op) :
    MInv (ops.foldl (step md5) Mem.empty) := by
  suffices ∀ m, MInv m → MInv (ops.foldl (step md5) m) from this _ empty_inv
  induction ops with
  | nil => intro m h; exact h
  | cons op ops ih => intro m h; exact ih _ (step_inv md5 m op h)

/-! ### keys are non-empty (the HTTP surface cannot name an empty key) -/

def BK (bk : Bucket) : Prop := ∀ r ∈ bk.objects, r.1 ≠ []
def KeysNE (m : Mem) : Prop := ∀ q ∈ m.buckets, BK q.2

theorem bk_insert (bk : Bucket) (name : Key) (o : Obj) (h : BK bk) (hn : name ≠ []) :
    ∀ r ∈ SMap.insert bk.objects name o, r.1 ≠ [] := by
  intro r hr
  rcases SMapL.mem_insert _ _ _ r hr with rfl | hr
  · exact hn
  · exact h r hr

theorem bk_erase (bk : Bucket) (name : Key) (h : BK bk) : ∀ r ∈ SMap.erase bk.objects name, r.1 ≠ [] :=
  fun r hr => h r (SMapL.mem_erase _ _ r hr)

theorem put_keys (bk : Bucket) (name : Key) (item : Ver) (h : BK bk) (hn : name ≠ []) : BK (bk.put name item) := by
  unfold Bucket.put; exact bk_insert bk name _ h hn

theorem rm_keys (bk : Bucket) (name : Key) (f : Nat) (h : BK bk) : BK (bk.rm name f).1 := by
  unfold Bucket.rm
  cases hf : SMap.find bk.objects name with
  | none => exact h
  | some o =>
    have hn : name ≠ [] := h (name, o) (find_mem_key _ _ _ hf)
    simp only
    split
    · exact put_keys bk name _ h hn
    · split
      · exact bk_erase bk name h
      · exact bk_insert bk name _ h hn

theorem storeObj_keys (bk : Bucket) (name : Key) (o : Obj) (h : BK bk) (hn : name ≠ []) : BK (bk.storeObj name o) := by
  unfold Bucket.storeObj
  split
  · exact bk_erase bk name h
  · exact bk_insert bk name _ h hn

theorem rmVersion_keys (bk : Bucket) (name : Key) (vid : Nat) (h : BK bk) : BK (bk.rmVersion name vid).1 := by
  unfold Bucket.rmVersion
  cases hf : SMap.find bk.objects name with
  | none => exact h
  | some o =>
    have hn : name ≠ [] := h (name, o) (find_mem_key _ _ _ hf)
    exact storeObj_keys bk name _ h hn

theorem keys_insert_bucket (m : Mem) (b : Bytes) (bk : Bucket) (N : Nat) (hm : KeysNE m) (hb : BK bk) :
    KeysNE { buckets := SMap.insert m.buckets b bk, nextVer := N } := by
  intro q hq
  rcases SMapL.mem_insert _ _ _ q hq with rfl | hq
  · exact hb
  · exact hm q hq

theorem delete_keys (m : Mem) (b : Bytes) (k : Key) (h : KeysNE m) : KeysNE (m.delete b k).1 := by
  unfold Mem.delete
  cases hf : SMap.find m.buckets b with
  | none => exact h
  | some bk => exact keys_insert_bucket m b _ _ h (rm_keys bk k _ (h (b, bk) (find_mem_key _ _ _ hf)))

theorem deleteVersion_keys (m : Mem) (b : Bytes) (k : Key) (vid : Nat) (h : KeysNE m) : KeysNE (m.deleteVersion b k vid).1 := by
  unfold Mem.deleteVersion
  cases hf : SMap.find m.buckets b with
  | none => exact h
  | some bk => exact keys_insert_bucket m b _ _ h (rmVersion_keys bk k vid (h (b, bk) (find_mem_key _ _ _ hf)))

theorem deleteFold_keys (b : Bytes) (ks : List Key) : ∀ m, KeysNE m → KeysNE (ks.foldl (fun acc k => (Mem.delete acc b k).1) m) := by
  induction ks with
  | nil => intro m h; exact h
  | cons k ks ih => intro m h; exact ih _ (delete_keys m b k h)

theorem deleteVFold_keys (b : Bytes) (objs : List (Key × Option Nat)) : ∀ m, KeysNE m →
    KeysNE (objs.foldl (fun acc (p : Key × Option Nat) =>
        match p.2 with
        | some vid => (Mem.deleteVersion acc b p.1 vid).1
        | none => (Mem.delete acc b p.1).1) m) := by
  induction objs with
  | nil => intro m h; exact h
  | cons q qs ih =>
    intro m h
    simp only [List.foldl_cons]
    apply ih
    cases hq : q.2 with
    | none => simp only; exact delete_keys m b q.1 h
    | some vid => simp only; exact deleteVersion_keys m b q.1 vid h

/-- an operation names no empty key -/
def OpKeysNE : Op → Prop
  | .put _ k _ _ => k ≠ []
  | _ => True

theorem step_keys (md5 : Bytes → Bytes) (m : Mem) (op : Op) (hop : OpKeysNE op) (h : KeysNE m) : KeysNE (step md5 m op) := by
  cases op with
  | createBucket b =>
    simp only [step, Mem.createBucket]
    split
    · exact h
    · exact keys_insert_bucket m b _ _ h (by intro r hr; simp at hr)
  | deleteBucket b =>
    simp only [step, Mem.deleteBucket]
    split
    · exact h
    · split
      · exact h
      · exact fun q hq => h q (SMapL.mem_erase _ _ q hq)
  | forceDeleteBucket b =>
    simp only [step, Mem.forceDeleteBucket]
    split
    · exact h
    · exact fun q hq => h q (SMapL.mem_erase _ _ q hq)
  | put b k md body =>
    simp only [step, Mem.put, Mem.putCommit]
    cases hf : SMap.find m.buckets b with
    | none => exact h
    | some bk => exact keys_insert_bucket m b _ _ h (put_keys bk k _ (h (b, bk) (find_mem_key _ _ _ hf)) hop)
  | delete b k => exact delete_keys m b k h
  | deleteVersion b k vid => exact deleteVersion_keys m b k vid h
  | deleteMulti b ks =>
    simp only [step, Mem.deleteMulti]
    split
    · exact h
    · exact deleteFold_keys b ks m h
  | deleteMultiVersions b objs =>
    simp only [step, Mem.deleteMultiVersions]
    split
    · exact h
    · exact deleteVFold_keys b objs m h
  | setVersioning b e =>
    simp only [step, Mem.setVersioning]
    cases hf : SMap.find m.buckets b with
    | none => exact h
    | some bk => exact keys_insert_bucket m b _ _ h (h (b, bk) (find_mem_key _ _ _ hf))

theorem run_keys (md5 : Bytes → Bytes) (ops : List Op) (hops : ∀ op ∈ ops, OpKeysNE op) :
    ∀ m, KeysNE m → KeysNE (ops.foldl (step md5) m) := by
  induction ops with
  | nil => intro m h; exact h
  | cons op ops ih =>
    intro m h
    exact ih (fun o ho => hops o (by simp [ho])) _ (step_keys md5 m op (hops op (by simp)) h)

/-- **reachable_good**: every bucket of a store reached from the empty one by operations that
    name no empty key satisfies `Good`, the hypothesis of the paging theorem -/
theorem reachable_good (md5 : Bytes → Bytes) (ops : List Op) (hops : ∀ op ∈ ops, OpKeysNE op)
    (b : Bytes) (bk : Bucket) (hb : SMap.find (ops.foldl (step md5) Mem.empty).buckets b = some bk) :
    Good bk.objects := by
  have hk : KeysNE (ops.foldl (step md5) Mem.empty) :=
    run_keys md5 ops hops _ (by intro q hq; simp [Mem.empty] at hq)
  have hi := store_always_good md5 ops (b, bk) (find_mem_key _ _ _ hb)
  exact ⟨hi.1, fun q hq => ObjB_ok (hi.2 q hq), hk (b, bk) (find_mem_key _ _ _ hb)⟩

/-- **reachable_versions_walk_exact**: in every reachable store, for every bucket, prefix,
    delimiter and page size `L ≥ 1`, following the returned NextKeyMarker / NextVersionIdMarker
    visits exactly the entries of the unpaginated version listing, none skipped or repeated. -/
theorem reachable_versions_walk_exact (md5 : Bytes → Bytes) (ops : List Op) (hops : ∀ op ∈ ops, OpKeysNE op)
    (b : Bytes) (bk : Bucket) (hb : SMap.find (ops.foldl (step md5) Mem.empty).buckets b = some bk)
    (p : Prefix) (L : Int) (hL : 1 ≤ L) :
    let m := ops.foldl (step md5) Mem.empty
    let pages := walk m b p L ((bk.objects.flatMap (C13L.entriesOfKey p (bk.versioning == .none))).length + 1) [] none
    pages.flatMap (·.entries) = bk.objects.flatMap (C13L.entriesOfKey p (bk.versioning == .none)) ∧
    pages.getLast?.map (·.truncated) = some false ∧
    ∀ r ∈ pages, (r.entries.length : Int) ≤ L :=
  versions_walk_exact _ b bk hb p L hL (reachable_good md5 ops hops b bk hb)

/-! Non-vacuity: a reachable store with an archived version, a delete marker and a second key; pages of two. -/
def exOps : List Op := [.createBucket [120], .setVersioning [120] true, .put [120] [97] [] [1], .put [120] [97] [] [2],
  .delete [120] [97], .put [120] [98] [] [3], .deleteVersion [120] [97] 2]

example : ∀ op ∈ exOps, OpKeysNE op := by
  intro op h
  simp only [exOps, List.mem_cons, List.mem_nil_iff, or_false] at h
  rcases h with rfl | rfl | rfl | rfl | rfl | rfl | rfl <;> simp [OpKeysNE]

example : (walk (exOps.foldl (step fun _ => []) Mem.empty) [120] ⟨false, [], false, 0⟩ 2 5 [] none).map
    (fun r => (r.entries.map (fun e => (e.vid, e.marker)), r.truncated, r.nextKey, r.nextVer)) =
    [([(some 1, false), (some 3, true)], true, [98], some 4), ([(some 4, false)], false, [], none)] := by decide

end GFS.Props.C13I
