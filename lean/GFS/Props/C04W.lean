import GFS.Props.C03
import GFS.Props.C04
import GFS.Lemmas.Order
set_option linter.unusedSimpArgs false
set_option linter.unusedVariables false
/-
  C04, the walk: following the marker the server hands back visits every live matching key
  exactly once, in order, and terminates — for every bucket content, prefix and page size
  (listing without delimiter; the delimiter case is covered by exhaustive correspondence).
-/
namespace GFS.Props.C04W
open GFS GFS.Model GFS.Bytes GFS.Props.C03

theorem shown_cons (pfx : Bytes) (q : Key × Obj) (rest : List (Key × Obj)) :
    shown pfx (q :: rest) = shown pfx [q] ++ shown pfx rest := by
  unfold shown
  rw [show q :: rest = [q] ++ rest from rfl, List.filterMap_append]

theorem shown_append (pfx : Bytes) (a b : List (Key × Obj)) : shown pfx (a ++ b) = shown pfx a ++ shown pfx b := by
  unfold shown; rw [List.filterMap_append]

/-- one page of the undelimited listing: either everything that is left fits, or the page ends
    exactly at the object that fills it and names that object's key as the next marker -/
theorem page_plain (pfx : Bytes) (mk : Int) (hmk : 1 ≤ mk) (objs : List (Key × Obj)) (cnt : Int) (last : Bytes)
    (acc : ObjectList) (hc : cnt < mk) (hinv : ∀ p ∈ objs, p.2.data ≠ none) :
    ((shown pfx objs).length < (mk - cnt).toNat ∧
      listLoop (plain pfx) mk objs cnt last acc = .ok { acc with contents := acc.contents ++ shown pfx objs }) ∨
    (∃ l1 k o l2 c, objs = l1 ++ (k, o) :: l2 ∧ shown pfx [(k, o)] = [c] ∧
      (shown pfx l1).length + 1 = (mk - cnt).toNat ∧
      listLoop (plain pfx) mk objs cnt last acc =
        .ok ⟨acc.contents ++ shown pfx l1 ++ [c], acc.prefixes, !l2.isEmpty, k⟩) := by
  induction objs generalizing cnt acc with
  | nil =>
    left
    refine ⟨by simp [shown]; omega, by simp [listLoop, shown]⟩
  | cons q rest ih =>
    obtain ⟨k, o⟩ := q
    have hrest : ∀ p ∈ rest, p.2.data ≠ none := fun p hp => hinv p (List.mem_cons_of_mem _ hp)
    have hd : o.data ≠ none := hinv (k, o) (List.mem_cons_self ..)
    cases hdata : o.data with
    | none => exact absurd hdata hd
    | some d =>
      obtain ⟨hm1, hm2⟩ := match_plain pfx k
      -- what `shown` says about this object
      have hshown1 : shown pfx [(k, o)] =
          if Bytes.hasPrefix k pfx && !d.marker then [⟨k, d.body.length, d.hash⟩] else [] := by
        simp only [shown, List.filterMap_cons, List.filterMap_nil, hdata]
        by_cases hh : (Bytes.hasPrefix k pfx && !d.marker) = true <;> simp [hh]
      have skip : (Bytes.hasPrefix k pfx && !d.marker) = false →
          listLoop (plain pfx) mk ((k, o) :: rest) cnt last acc = listLoop (plain pfx) mk rest cnt last acc := by
        intro hs
        conv => lhs; unfold listLoop
        simp only [hdata]
        cases hmatch : (plain pfx).match_ k with
        | none => rfl
        | some r =>
          obtain ⟨cp, mp⟩ := r
          have hpre : Bytes.hasPrefix k pfx = true := by rw [← hm1, hmatch]; rfl
          have hmkr : d.marker = true := by simpa [hpre] using hs
          simp [hmkr]
      by_cases hs : (Bytes.hasPrefix k pfx && !d.marker) = true
      · -- the object is listed
        have hpre : Bytes.hasPrefix k pfx = true := by simp only [Bool.and_eq_true] at hs; exact hs.1
        have hmkr : d.marker = false := by simp only [Bool.and_eq_true, Bool.not_eq_true'] at hs; exact hs.2
        have hsome : ∃ mp, (plain pfx).match_ k = some (false, mp) := by
          cases hmatch : (plain pfx).match_ k with
          | none => rw [hmatch] at hm1; simp [hpre] at hm1
          | some r =>
            obtain ⟨cp, mp⟩ := r
            have : cp = false := hm2 (cp, mp) hmatch
            subst this; exact ⟨mp, rfl⟩
        obtain ⟨mp, hmatch⟩ := hsome
        have hs1 : shown pfx [(k, o)] = [⟨k, d.body.length, d.hash⟩] := by rw [hshown1, hs]; rfl
        by_cases hfull : cnt + 1 ≥ mk
        · right
          refine ⟨[], k, o, rest, ⟨k, d.body.length, d.hash⟩, rfl, hs1, by simp [shown]; omega, ?_⟩
          conv => lhs; unfold listLoop
          have hgt : (mk > 0 ∧ cnt + 1 ≥ mk) := ⟨by omega, hfull⟩
          simp [hdata, hmatch, hmkr, hgt, addEntry, shown]
        · have hc' : cnt + 1 < mk := by omega
          have hstep : listLoop (plain pfx) mk ((k, o) :: rest) cnt last acc =
              listLoop (plain pfx) mk rest (cnt + 1) last { acc with contents := acc.contents ++ [⟨k, d.body.length, d.hash⟩] } := by
            conv => lhs; unfold listLoop
            have hgt : ¬ (mk > 0 ∧ cnt + 1 ≥ mk) := by omega
            simp [hdata, hmatch, hmkr, hgt, addEntry]
          rcases ih (cnt + 1) { acc with contents := acc.contents ++ [⟨k, d.body.length, d.hash⟩] } hc' hrest with
            ⟨hlen, hres⟩ | ⟨l1, k2, o2, l2, c, hobjs, hc1, hlen, hres⟩
          · left
            rw [shown_cons, hs1, hstep, hres]
            refine ⟨by simp at hlen ⊢; omega, by simp [List.append_assoc]⟩
          · right
            refine ⟨(k, o) :: l1, k2, o2, l2, c, by rw [hobjs]; rfl, hc1, ?_, ?_⟩
            · rw [shown_cons, hs1]; simp at hlen ⊢; omega
            · rw [hstep, hres, shown_cons, hs1]; simp [List.append_assoc]
      · -- the object is not listed
        have hs' : (Bytes.hasPrefix k pfx && !d.marker) = false := by simpa using hs
        have hs0 : shown pfx [(k, o)] = [] := by rw [hshown1, hs']; rfl
        rcases ih cnt acc hc hrest with ⟨hlen, hres⟩ | ⟨l1, k2, o2, l2, c, hobjs, hc1, hlen, hres⟩
        · left
          rw [shown_cons, hs0, skip hs', hres]
          exact ⟨by simpa using hlen, by simp⟩
        · right
          refine ⟨(k, o) :: l1, k2, o2, l2, c, by rw [hobjs]; rfl, hc1, ?_, ?_⟩
          · rw [shown_cons, hs0]; simpa using hlen
          · rw [skip hs', hres, shown_cons, hs0]; simp

/-- `Seek(marker)` + "skip the marker itself" on a sorted bucket: exactly the objects after it -/
theorem afterMarker_split (l1 l2 : List (Key × Obj)) (k : Key) (o : Obj) (hk : k ≠ [])
    (hs : SMap.Sorted (l1 ++ (k, o) :: l2)) : afterMarker (l1 ++ (k, o) :: l2) k = l2 := by
  unfold afterMarker
  have hke : k.isEmpty = false := by cases k with | nil => exact absurd rfl hk | cons _ _ => rfl
  simp only [hke, Bool.false_eq_true, if_false, List.filter_append, List.filter_cons, lt_irrefl]
  obtain ⟨h1, h2, h3⟩ := List.pairwise_append.mp hs
  have h2' := List.pairwise_cons.mp h2
  have e1 : l1.filter (fun p => lt k p.1) = [] := by
    apply List.filter_eq_nil_iff.mpr
    intro q hq
    have : lt q.1 k = true := h3 q hq (k, o) (List.mem_cons_self ..)
    simp [lt_asymm _ _ this]
  have e2 : l2.filter (fun p => lt k p.1) = l2 := by
    apply List.filter_eq_self.mpr
    intro q hq
    exact h2'.1 q hq
  simp [e1, e2]

/-- the client's walk: ask for a page, continue from the marker the server handed back while it
    says the listing is truncated (`fuel` bounds the number of requests) -/
def walk (m : Mem) (b : Bytes) (p : Prefix) (mk : Int) : Nat → Bytes → List ObjectList
  | 0, _ => []
  | n + 1, marker =>
    match m.listBucket b p marker mk with
    | .ok r => if r.truncated then r :: walk m b p mk n r.next else [r]
    | _ => []

theorem walk_plain_aux (m : Mem) (b : Bytes) (bk : Bucket) (hb : SMap.find m.buckets b = some bk)
    (hsorted : SMap.Sorted bk.objects) (hinv : ∀ p ∈ bk.objects, p.2.data ≠ none ∧ p.1 ≠ [])
    (pfx : Bytes) (mk : Int) (hmk : 1 ≤ mk) :
    ∀ (n : Nat) (rest pre : List (Key × Obj)) (marker : Bytes), bk.objects = pre ++ rest →
      afterMarker bk.objects marker = rest → rest.length < n →
      ((walk m b (plain pfx) mk n marker).flatMap (·.contents)) = shown pfx rest ∧
      (walk m b (plain pfx) mk n marker).getLast?.map (·.truncated) = some false ∧
      (walk m b (plain pfx) mk n marker).length ≤ rest.length + 1 := by
  intro n
  induction n with
  | zero => intro rest pre marker _ _ h; omega
  | succ n ih =>
    intro rest pre marker hsplit hafter hlen
    have hinvr : ∀ p ∈ rest, p.2.data ≠ none := by
      intro p hp; exact (hinv p (by rw [hsplit]; exact List.mem_append_right _ hp)).1
    unfold walk
    simp only [Mem.listBucket, hb, hafter]
    rcases page_plain pfx mk hmk rest 0 [] ⟨[], [], false, []⟩ (by omega) hinvr with
      ⟨_, hres⟩ | ⟨l1, k, o, l2, c, hobjs, hc1, _, hres⟩
    · rw [hres]; simp
    · rw [hres]
      have hshown : shown pfx rest = shown pfx l1 ++ [c] ++ shown pfx l2 := by
        rw [hobjs, shown_append, shown_cons, hc1]; simp [List.append_assoc]
      cases l2 with
      | nil =>
        simp only [List.isEmpty_nil, Bool.not_true, Bool.false_eq_true, if_false]
        rw [hshown]; simp [shown]
      | cons q qs =>
        simp only [List.isEmpty_cons, Bool.not_false, if_true]
        have hk : k ≠ [] := (hinv (k, o) (by rw [hsplit, hobjs]; simp)).2
        have hobj2 : bk.objects = (pre ++ l1) ++ (k, o) :: (q :: qs) := by rw [hsplit, hobjs]; simp
        have hafter2 : afterMarker bk.objects k = q :: qs := by
          rw [hobj2]; exact afterMarker_split _ _ k o hk (by rw [← hobj2]; exact hsorted)
        have hlen2 : (q :: qs).length < n := by
          rw [hobjs] at hlen; simp at hlen ⊢; omega
        obtain ⟨g1, g2, g3⟩ := ih (q :: qs) (pre ++ l1 ++ [(k, o)]) k (by rw [hobj2]; simp) hafter2 hlen2
        refine ⟨?_, ?_, ?_⟩
        · rw [List.flatMap_cons, g1, hshown]; simp [List.append_assoc]
        · cases hw : walk m b (plain pfx) mk n k with
          | nil => rw [hw] at g2; simp at g2
          | cons w ws => rw [hw] at g2; rw [List.getLast?_cons_cons]; exact g2
        · rw [hobjs]; simp at g3 ⊢; omega

/-- **walk_plain_exact**: for every bucket of the model whose objects are sorted by key, have a
    current version and a non-empty key (the invariant of every reachable store), every prefix and
    every page size of at least one, the client's walk from the start — follow the returned marker
    while IsTruncated — terminates within (number of objects + 1) requests, its last page is not
    truncated, and the concatenation of its pages is exactly the unpaginated listing: every live
    matching key once, in ascending order, none skipped or repeated. -/
theorem walk_plain_exact (m : Mem) (b : Bytes) (bk : Bucket) (hb : SMap.find m.buckets b = some bk)
    (hsorted : SMap.Sorted bk.objects) (hinv : ∀ p ∈ bk.objects, p.2.data ≠ none ∧ p.1 ≠ [])
    (pfx : Bytes) (mk : Int) (hmk : 1 ≤ mk) :
    let pages := walk m b (plain pfx) mk (bk.objects.length + 1) []
    pages.flatMap (·.contents) = shown pfx bk.objects ∧
    pages.getLast?.map (·.truncated) = some false ∧
    pages.length ≤ bk.objects.length + 1 ∧
    m.listBucket b (plain pfx) [] 0 = .ok ⟨shown pfx bk.objects, [], false, []⟩ := by
  obtain ⟨g1, g2, g3⟩ := walk_plain_aux m b bk hb hsorted hinv pfx mk hmk (bk.objects.length + 1) bk.objects [] []
    (by simp) (by simp [afterMarker]) (by omega)
  refine ⟨g1, g2, g3, ?_⟩
  simp only [Mem.listBucket, hb, afterMarker, List.isEmpty_nil, if_true]
  rw [list_plain_exact pfx bk.objects 0 [] ⟨[], [], false, []⟩ (fun p hp => (hinv p hp).1)]
  simp

/-! The sortedness hypothesis is an invariant of the bucket operations (the empty bucket is
    sorted; every operation goes through the ordered `insert` or through `erase`). -/
theorem bput_sorted (bk : Bucket) (k : Key) (item : Ver) (h : SMap.Sorted bk.objects) :
    SMap.Sorted (bk.put k item).objects := by
  unfold Bucket.put; exact SMap.sorted_insert _ _ _ h

theorem bstore_sorted (bk : Bucket) (k : Key) (o : Obj) (h : SMap.Sorted bk.objects) :
    SMap.Sorted (bk.storeObj k o).objects := by
  unfold Bucket.storeObj
  split
  · exact SMap.sorted_erase _ _ h
  · exact SMap.sorted_insert _ _ _ h

theorem brm_sorted (bk : Bucket) (k : Key) (fresh : Nat) (h : SMap.Sorted bk.objects) :
    SMap.Sorted (bk.rm k fresh).1.objects := by
  unfold Bucket.rm
  split
  · exact h
  · split
    · exact bput_sorted _ _ _ h
    · simp only
      cases (Obj.promote ⟨none, _⟩).data with
      | none => exact SMap.sorted_erase _ _ h
      | some _ => exact SMap.sorted_insert _ _ _ h

theorem brmVersion_sorted (bk : Bucket) (k : Key) (vid : Nat) (h : SMap.Sorted bk.objects) :
    SMap.Sorted (bk.rmVersion k vid).1.objects := by
  unfold Bucket.rmVersion
  split
  · exact h
  · exact bstore_sorted _ _ _ h

/-! Non-vacuity: three keys, page size 1 and 2. -/
def exBk : Bucket := ⟨.none, [([97], ⟨some ⟨1, false, [1], [9], []⟩, []⟩), ([97, 98], ⟨some ⟨2, false, [2, 2], [8], []⟩, []⟩),
  ([98], ⟨some ⟨3, false, [3], [7], []⟩, []⟩)]⟩
def exM : Mem := ⟨[([120], exBk)], 3⟩
example : SMap.Sorted exBk.objects ∧ ∀ p ∈ exBk.objects, p.2.data ≠ none ∧ p.1 ≠ [] := by
  constructor
  · simp [SMap.Sorted, exBk]; decide
  · decide
example : ((walk exM [120] (plain [97]) 1 4 []).map (·.contents.map (·.key))) = [[[97]], [[97, 98]], []] := by decide

end GFS.Props.C04W
