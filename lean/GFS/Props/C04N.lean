import GFS.Props.C03
import GFS.Props.C13I
import GFS.Model.Front
set_option linter.unusedSimpArgs false
set_option linter.unusedVariables false
/-
  C04, last sentence: "Backends that do not paginate answer with the complete listing and
  IsTruncated=false unless configured to refuse."  At the handler level (gofakes3.go listBucket
  over a backend that does not implement paging: s3bolt, s3afero): whatever marker, token or
  max-keys the request carries, the answer is the backend's COMPLETE listing — exactly the live
  matching keys, not truncated — or, with the unimplemented-page option, NotImplemented.
-/
namespace GFS.Props.C04N
open GFS GFS.Model GFS.Props.C03 GFS.Props.C13I

/-- a request that asks for a page: a marker / token / start-after, or a max-keys -/
def asksPage (hasMarker : Bool) (marker : Bytes) (maxKeys : Int) : Bool := !(!hasMarker && marker.isEmpty && maxKeys == 0)

/-- **nonpaginating_refuses_when_configured**: with the unimplemented-page option a request for a
    page is refused with NotImplemented and changes nothing -/
theorem nonpaginating_refuses_when_configured (cfg : Cfg) (m : Mem) (b : Bytes) (p : Prefix) (hasMarker : Bool) (marker : Bytes)
    (maxKeys : Int) (v2 : Bool) (hex : m.bucketExists b = true) (hnp : cfg.paginates = false) (hf : cfg.failOnPage = true)
    (hpg : asksPage hasMarker marker maxKeys = true) :
    Front.listBucket cfg m b p hasMarker marker maxKeys v2 = (m, .err .NotImplemented) := by
  have hpe : (!hasMarker && marker.isEmpty && maxKeys == 0) = false := by
    cases h : (!hasMarker && marker.isEmpty && maxKeys == 0)
    · rfl
    · simp [asksPage, h] at hpg
  simp [Front.listBucket, Front.withBucket, Front.ensureBucket, hex, hnp, hf, hpe, Out.ofRes]

/-- **nonpaginating_answers_complete_listing**: without that option the request is answered with
    the backend's listing for NO marker and NO limit — whatever marker and max-keys it carried -/
theorem nonpaginating_answers_complete_listing (cfg : Cfg) (m : Mem) (b : Bytes) (p : Prefix) (hasMarker : Bool) (marker : Bytes)
    (maxKeys : Int) (v2 : Bool) (hex : m.bucketExists b = true) (hnp : cfg.paginates = false) (hf : cfg.failOnPage = false) :
    Front.listBucket cfg m b p hasMarker marker maxKeys v2 =
      (m, Out.ofRes (m.listBucket b p [] 0) fun l => .listing l v2 p.hasDelim) := by
  by_cases hpe : (!hasMarker && marker.isEmpty && maxKeys == 0) = true
  · have hm : marker = [] := by
      have : marker.isEmpty = true := by simp_all
      exact List.isEmpty_iff.mp this
    have hk : maxKeys = 0 := by simp_all
    subst hm hk
    simp [Front.listBucket, Front.withBucket, Front.ensureBucket, hex, hnp, hf, hpe]
  · simp [Front.listBucket, Front.withBucket, Front.ensureBucket, hex, hnp, hf, hpe]

/-- and that listing (undelimited) is exactly the live matching keys, not truncated -/
theorem complete_listing_exact (m : Mem) (b : Bytes) (bk : Bucket) (hb : SMap.find m.buckets b = some bk) (hm : MInv m) (pfx : Bytes) :
    m.listBucket b (plain pfx) [] 0 = .ok ⟨shown pfx bk.objects, [], false, []⟩ := by
  unfold Mem.listBucket
  simp only [hb]
  have hinv : ∀ q ∈ bk.objects, q.2.data ≠ none := by
    intro q hq
    obtain ⟨d, h1, _⟩ := (hm (b, bk) (find_mem_key _ _ _ hb)).2 q hq
    rw [h1]; simp
  have ha : afterMarker bk.objects [] = bk.objects := by simp [afterMarker]
  rw [ha, list_plain_exact pfx bk.objects 0 [] _ hinv]
  simp

end GFS.Props.C04N
