import GFS.Props.FsR
set_option linter.unusedSimpArgs false
set_option linter.unusedVariables false
/-
  The single-bucket file-system backend (single.go) refines the reference model of S3 over every
  request sequence addressed to it — the statement Props/FsR proves for the multi-bucket backend.

  Model/FsBackend `Single`: the object methods of the single-bucket backend are the multi-bucket
  ones behind the test `bucketName != db.name`; BucketExists is `b == name`, ListBuckets is
  `[name]`, CreateBucket / DeleteBucket are not implemented.  Below: gofakes3.go over that backend
  (`handleS`) answers every request other than create/delete bucket exactly as gofakes3.go over
  the multi-bucket backend holding just that bucket (`handle_eq`), and keeps the store of that
  shape — so `FsR.fs_run_refines` carries over (`single_run_refines`).
-/
namespace GFS.Props.FsS1
open GFS GFS.Model GFS.Model.FsB GFS.Spec.S3 GFS.Props.FsR

def withBucketS {α} (name : Bytes) (s : FsS) (b : Bytes) (f : Unit → FsS × Res α) : FsS × Res α :=
  if Single.bucketExists name b then f () else (s, .err .NoSuchBucket)

/-- one request of the reference alphabet as gofakes3.go serves it on the single-bucket backend -/
def handleS (md5 : Bytes → Bytes) (name : Bytes) (s : FsS) : Op → FsS × Res HOut
  | .createBucket b =>
    if !validateBucketName b then (s, .err .InvalidBucketName) else lift (Single.createBucket s) fun _ => .unit
  | .headBucket b => withBucketS name s b fun _ => (s, .ok .unit)
  | .deleteBucket b => withBucketS name s b fun _ => lift (Single.deleteBucket s) fun _ => .unit
  | .listBuckets => (s, .ok (.names (Single.listBuckets name)))
  | .put b k body => withBucketS name s b fun _ =>
      if k.length > Front.KeySizeLimit then (s, .err .KeyTooLong)
      else lift (Single.putObject md5 name s b k [] body) fun _ => .hash (md5 body)
  | .get b k | .head b k => withBucketS name s b fun _ => lift (s, Single.getObject md5 name s b k) fun o => .object o
  | .delete b k => withBucketS name s b fun _ => lift (Single.deleteObject name s b k) fun _ => .unit
  | .deleteMulti b ks => withBucketS name s b fun _ => lift (Single.deleteMulti name s b ks) fun r => .keys r.1 r.2
  | .copy sb sk dstB dstK => withBucketS name s dstB fun _ =>
      if dstK.length > Front.KeySizeLimit then (s, .err .KeyTooLong)
      else match Single.getObject md5 name s sb sk with
        | .err c => (s, .err c)
        | .panic x => (s, .panic x)
        | .ok src =>
          lift (Single.copyObject md5 name s sb sk dstB dstK (mergeMeta [] (src.md.filter (fun p => !(p.1 == Front.aclKey))))) fun h => .hash h

/-- the store holds exactly the backend's one bucket -/
def OnlyB (name : Bytes) (s : FsS) : Prop := ∃ bk, s.buckets = [(name, bk)]

/-- requests the single-bucket backend can serve (it cannot create or delete buckets) -/
def ObjOp : Op → Prop
  | .createBucket _ => False
  | .deleteBucket _ => False
  | _ => True

theorem find_only (name b : Bytes) (bk : Bkt) : SMap.find [(name, bk)] b = if name == b then some bk else none := by
  simp [SMap.find]

theorem insert_only (name : Bytes) (bk bk' : Bkt) : SMap.insert [(name, bk)] name bk' = [(name, bk')] := by
  simp [SMap.insert]

theorem exists_only (name b : Bytes) (bk : Bkt) (hv : validateBucketName name = true) :
    bucketExists ⟨[(name, bk)]⟩ b = Single.bucketExists name b := by
  unfold bucketExists Single.bucketExists
  simp only [find_only]
  by_cases h : name = b
  · subst h; simp [hv]
  · have h1 : (name == b) = false := by simpa using h
    have h2 : (b == name) = false := by simpa using (Ne.symm h)
    simp [h1, h2]

theorem get_only (md5 : Bytes → Bytes) (name b k : Bytes) (bk : Bkt) :
    Single.getObject md5 name ⟨[(name, bk)]⟩ b k = getObject md5 ⟨[(name, bk)]⟩ b k := by
  unfold Single.getObject
  by_cases h : b = name
  · subst h; simp
  · have h1 : (b != name) = true := by simpa using h
    have h2 : (name == b) = false := by simpa using (Ne.symm h)
    simp [h1, getObject, find_only, h2]

theorem put_only (md5 : Bytes → Bytes) (name k : Bytes) (md : Meta) (body : Bytes) (bk : Bkt) :
    Single.putObject md5 name ⟨[(name, bk)]⟩ name k md body = putObject md5 ⟨[(name, bk)]⟩ name k md body := by
  simp [Single.putObject]

/-- what a put leaves behind is again a store with just that bucket -/
theorem put_keeps (md5 : Bytes → Bytes) (name k : Bytes) (md : Meta) (body : Bytes) (bk : Bkt) :
    OnlyB name (putObject md5 ⟨[(name, bk)]⟩ name k md body).1 := by
  unfold putObject
  cases Fs.keyPath k with
  | none => exact ⟨bk, rfl⟩
  | some p =>
    simp only [find_only, beq_self_eq_true, if_true]
    cases Fs.put bk.tree p body with
    | none => exact ⟨bk, rfl⟩
    | some t' => exact ⟨_, insert_only name bk _⟩

theorem delete_keeps (name k : Bytes) (bk : Bkt) : OnlyB name (deleteObject ⟨[(name, bk)]⟩ name k).1 := by
  unfold deleteObject
  simp only [find_only, beq_self_eq_true, if_true]
  cases deleteIn bk k with
  | none => exact ⟨bk, rfl⟩
  | some bk' => exact ⟨_, insert_only name bk _⟩

theorem deleteMulti_keeps (name : Bytes) (ks : List Bytes) (bk : Bkt) : OnlyB name (deleteMulti ⟨[(name, bk)]⟩ name ks).1 := by
  unfold deleteMulti
  simp only [find_only, beq_self_eq_true, if_true]
  exact ⟨_, insert_only name bk _⟩

/-- **handle_eq**: on a store that holds exactly the backend's bucket, every request the
    single-bucket backend can serve is answered — and changes the store — exactly as on the
    multi-bucket backend, and the store keeps that shape -/
theorem handle_eq (md5 : Bytes → Bytes) (name : Bytes) (hv : validateBucketName name = true) (s : FsS) (op : Op)
    (ho : OnlyB name s) (hop : ObjOp op) :
    handleS md5 name s op = handle md5 s op ∧ OnlyB name (handle md5 s op).1 := by
  obtain ⟨bk, hs⟩ := ho
  obtain ⟨bks⟩ := s
  simp only at hs
  subst hs
  have hex := fun b => exists_only name b bk hv
  cases op with
  | createBucket b => exact absurd hop (by simp [ObjOp])
  | deleteBucket b => exact absurd hop (by simp [ObjOp])
  | headBucket b =>
    refine ⟨by simp [handleS, handle, withBucketS, withBucket, hex], ?_⟩
    simp only [handle, withBucket]; split <;> exact ⟨bk, rfl⟩
  | listBuckets =>
    refine ⟨by simp [handleS, handle, Single.listBuckets, listBuckets, SMap.keys, hv], ⟨bk, rfl⟩⟩
  | get b k =>
    refine ⟨by simp [handleS, handle, withBucketS, withBucket, hex, get_only], ?_⟩
    simp only [handle, withBucket]
    split
    · cases getObject md5 ⟨[(name, bk)]⟩ b k <;> exact ⟨bk, rfl⟩
    · exact ⟨bk, rfl⟩
  | head b k =>
    refine ⟨by simp [handleS, handle, withBucketS, withBucket, hex, get_only], ?_⟩
    simp only [handle, withBucket]
    split
    · cases getObject md5 ⟨[(name, bk)]⟩ b k <;> exact ⟨bk, rfl⟩
    · exact ⟨bk, rfl⟩
  | put b k body =>
    simp only [handleS, handle, withBucketS, withBucket, hex]
    by_cases hb : Single.bucketExists name b = true
    · have hbn : b = name := by simpa [Single.bucketExists] using hb
      subst hbn
      simp only [hb, if_true, put_only]
      refine ⟨by first | rfl | trivial, ?_⟩
      split
      · exact ⟨bk, rfl⟩
      · have := put_keeps md5 b k [] body bk
        cases hq : putObject md5 ⟨[(b, bk)]⟩ b k [] body with
        | mk s' r => rw [hq] at this; cases r <;> exact this
    · simp only [hb, Bool.false_eq_true, if_false]
      exact ⟨by first | rfl | trivial, ⟨bk, rfl⟩⟩
  | delete b k =>
    simp only [handleS, handle, withBucketS, withBucket, hex]
    by_cases hb : Single.bucketExists name b = true
    · have hbn : b = name := by simpa [Single.bucketExists] using hb
      subst hbn
      simp only [hb, if_true, Single.deleteObject, bne_self_eq_false, Bool.false_eq_true, if_false]
      refine ⟨by first | rfl | trivial, ?_⟩
      have := delete_keeps b k bk
      cases hq : deleteObject ⟨[(b, bk)]⟩ b k with
      | mk s' r => rw [hq] at this; cases r <;> exact this
    · simp only [hb, Bool.false_eq_true, if_false]
      exact ⟨by first | rfl | trivial, ⟨bk, rfl⟩⟩
  | deleteMulti b ks =>
    simp only [handleS, handle, withBucketS, withBucket, hex]
    by_cases hb : Single.bucketExists name b = true
    · have hbn : b = name := by simpa [Single.bucketExists] using hb
      subst hbn
      simp only [hb, if_true, Single.deleteMulti, bne_self_eq_false, Bool.false_eq_true, if_false]
      refine ⟨by first | rfl | trivial, ?_⟩
      have := deleteMulti_keeps b ks bk
      cases hq : deleteMulti ⟨[(b, bk)]⟩ b ks with
      | mk s' r => rw [hq] at this; cases r <;> exact this
    · simp only [hb, Bool.false_eq_true, if_false]
      exact ⟨by first | rfl | trivial, ⟨bk, rfl⟩⟩
  | copy sb sk dstB dstK =>
    simp only [handleS, handle, withBucketS, withBucket, hex]
    by_cases hb : Single.bucketExists name dstB = true
    · have hbn : dstB = name := by simpa [Single.bucketExists] using hb
      subst hbn
      simp only [hb, if_true, get_only]
      by_cases hl : dstK.length > Front.KeySizeLimit
      · simp only [hl, if_true]; exact ⟨by first | rfl | trivial, ⟨bk, rfl⟩⟩
      · simp only [hl, if_false]
        cases hg : getObject md5 ⟨[(dstB, bk)]⟩ sb sk with
        | err c => exact ⟨by first | rfl | trivial, ⟨bk, rfl⟩⟩
        | panic x => exact ⟨by first | rfl | trivial, ⟨bk, rfl⟩⟩
        | ok src =>
          simp only [Single.copyObject, copyObject, get_only, hg, put_only]
          refine ⟨by first | rfl | trivial, ?_⟩
          have := put_keeps md5 dstB dstK (mergeMeta [] (src.md.filter (fun p => !(p.1 == Front.aclKey)))) src.body bk
          cases hq : putObject md5 ⟨[(dstB, bk)]⟩ dstB dstK (mergeMeta [] (src.md.filter (fun p => !(p.1 == Front.aclKey)))) src.body with
          | mk s' r => rw [hq] at this; cases r <;> exact this
    · simp only [hb, Bool.false_eq_true, if_false]
      exact ⟨by first | rfl | trivial, ⟨bk, rfl⟩⟩

/-- the single-bucket backend and the reference model side by side (as `FsR.lock`) -/
def lockS (md5 : Bytes → Bytes) (name : Bytes) (acc : FsS × Store × Bool) (op : Op) : FsS × Store × Bool :=
  let r := handleS md5 name acc.1 op
  let q := step acc.2.1 op
  if ansOf r.2 = q.2 then (r.1, q.1, acc.2.2)
  else if refusedB op r.2 then (r.1, acc.2.1, acc.2.2)
  else (r.1, q.1, false)

theorem lockS_eq (md5 : Bytes → Bytes) (name : Bytes) (hv : validateBucketName name = true) (ops : List Op)
    (hops : ∀ op ∈ ops, ObjOp op) : ∀ (acc : FsS × Store × Bool), OnlyB name acc.1 →
    ops.foldl (lockS md5 name) acc = ops.foldl (lock md5) acc := by
  induction ops with
  | nil => intro acc _; rfl
  | cons op ops ih =>
    intro acc ho
    obtain ⟨heq, hkeep⟩ := handle_eq md5 name hv acc.1 op ho (hops op (by simp))
    have hstep : lockS md5 name acc op = lock md5 acc op := by simp only [lockS, lock, heq]
    simp only [List.foldl_cons, hstep]
    apply ih (fun o h => hops o (by simp [h]))
    simp only [lock]
    split
    · exact hkeep
    · split <;> exact hkeep

/-- **single_run_refines**: along every finite sequence of requests the single-bucket backend can
    serve (every request of the reference alphabet except create / delete bucket; to any bucket
    name; keys to write within the length limit), started on its empty store: every request it does
    not refuse is answered exactly as the reference model of S3 (holding that one bucket) answers
    it, a refused one (InvalidArgument) changes nothing, and the stores stay related. -/
theorem single_run_refines (md5 : Bytes → Bytes) (name : Bytes) (hv : validateBucketName name = true) (ops : List Op)
    (hops : ∀ op ∈ ops, OpOk op ∧ ObjOp op) :
    (ops.foldl (lockS md5 name) (Single.init name, [(name, [])], true)).2.2 = true ∧
    Rel (ops.foldl (lockS md5 name) (Single.init name, [(name, [])], true)).1
        (ops.foldl (lockS md5 name) (Single.init name, [(name, [])], true)).2.1 := by
  rw [lockS_eq md5 name hv ops (fun o h => (hops o h).2) _ ⟨_, rfl⟩]
  obtain ⟨hi, hr⟩ := single_init name hv
  obtain ⟨h1, h2, _⟩ := fs_run_refines md5 ops (Single.init name) [(name, [])] true hr hi (fun o h => (hops o h).1)
  exact ⟨h1, h2⟩

/-! Non-vacuity: put, nested put refused, get, copy, delete, another bucket's name, multi-delete. -/
example : (([.put b1 kA [1], .put b1 kAB [2], .get b1 kAB, .copy b1 kA b1 [99], .delete b1 kA, .put b1 kAB [4],
      .get [120, 120, 120] kA, .deleteMulti b1 [kAB, [99]], .listBuckets, .headBucket b1] : List Op).foldl
      (lockS id b1) (Single.init b1, [(b1, [])], true)).2.2 = true := by decide

end GFS.Props.FsS1
