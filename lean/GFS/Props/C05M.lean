import GFS.Props.C05R
set_option linter.unusedSimpArgs false
set_option linter.unusedVariables false
/-
  C05: the multi-delete requests of the property's alphabet are sequences of the operations
  `C05R.versions_run_refines` speaks about — so that theorem covers them as they stand.
-/
namespace GFS.Props.C05M
open GFS GFS.Model GFS.Props.C05R

/-- one entry of a multi-delete with versions as an operation of the history alphabet -/
def opOf (p : Key × Option Nat) : HOp :=
  match p.2 with
  | some vid => .delVer p.1 vid
  | none => .del p.1

/-- **multi_delete_versions_is_sequence**: DeleteMultiVersions on an existing bucket leaves exactly
    the store that deleting its entries one after the other leaves (a plain delete for an entry
    without a version id, a delete of that version otherwise) -/
theorem multi_delete_versions_is_sequence (md5 : Bytes → Bytes) (m : Mem) (b : Bytes) (objs : List (Key × Option Nat))
    (hb : (SMap.find m.buckets b).isSome = true) :
    (m.deleteMultiVersions b objs).1 = (objs.map opOf).foldl (mstep md5 b) m := by
  unfold Mem.deleteMultiVersions
  cases hf : SMap.find m.buckets b with
  | none => simp [hf] at hb
  | some bk =>
    simp only
    clear hf hb
    induction objs generalizing m with
    | nil => rfl
    | cons p ps ih =>
      simp only [List.foldl_cons, List.map_cons]
      have : mstep md5 b m (opOf p) = (match p.2 with
          | some vid => (Mem.deleteVersion m b p.1 vid).1
          | none => (Mem.delete m b p.1).1) := by
        unfold opOf
        cases p.2 <;> rfl
      rw [this]
      exact ih _

/-- the unversioned multi-delete is the sequence of plain deletes -/
theorem multi_delete_is_sequence (md5 : Bytes → Bytes) (m : Mem) (b : Bytes) (ks : List Key)
    (hb : (SMap.find m.buckets b).isSome = true) :
    (m.deleteMulti b ks).1 = (ks.map HOp.del).foldl (mstep md5 b) m := by
  unfold Mem.deleteMulti
  cases hf : SMap.find m.buckets b with
  | none => simp [hf] at hb
  | some bk =>
    simp only
    clear hf hb
    induction ks generalizing m with
    | nil => rfl
    | cons k ks ih =>
      simp only [List.foldl_cons, List.map_cons]
      exact ih _

example : (Mem.deleteMultiVersions (run id [98] C05R.exM ⟨.never, []⟩ C05R.exOps).1 [98] [([107], some 2), ([107], none)]).1.nextVer = 5 := by
  decide

end GFS.Props.C05M
