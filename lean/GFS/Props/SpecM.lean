import GFS.Props.C06R
set_option linter.unusedSimpArgs false
set_option linter.unusedVariables false
/-
  The specification Spec.Multipart says what the statement of C06 says: a part list is accepted
  exactly when it is ascending and every entry names an uploaded part under the ETag of that part's
  MOST RECENT upload; the object is then the concatenation of those most recent bodies in listed
  order; a re-upload replaces exactly its own part number.
-/
namespace GFS.Props.SpecM
open GFS GFS.Spec.Multipart GFS.Props.C06R

/-- what the specification's fold accepts, entry by entry -/
theorem specFold_iff (md5 : Bytes → Bytes) (u : Upload) (listed : List (Int × Bytes)) (bs : List Bytes) :
    specFold md5 u listed = some bs ↔
      bs.length = listed.length ∧
      ∀ i (hi : i < listed.length) (hb : i < bs.length),
        bodyOf u (listed[i]).1 = some bs[i] ∧ Bytes.trim1 34 (listed[i]).2 = Bytes.hexLower (md5 bs[i]) := by
  induction listed generalizing bs with
  | nil =>
    constructor
    · intro h
      have : bs = [] := by simpa [specFold] using h.symm
      subst this
      exact ⟨rfl, fun i hi => absurd hi (by simp)⟩
    · rintro ⟨hl, _⟩
      have : bs = [] := List.eq_nil_of_length_eq_zero (by simpa using hl)
      subst this; rfl
  | cons x rest ih =>
    have hfold : specFold md5 u (x :: rest) =
        (match specFold md5 u rest, bodyOf u x.1 with
         | some bs, some body => if Bytes.trim1 34 x.2 == Bytes.hexLower (md5 body) then some (body :: bs) else none
         | _, _ => none) := rfl
    rw [hfold]
    constructor
    · intro h
      cases hr : specFold md5 u rest with
      | none => simp [hr] at h
      | some bs' =>
        cases hb : bodyOf u x.1 with
        | none => simp [hr, hb] at h
        | some body =>
          simp only [hr, hb] at h
          by_cases he : (Bytes.trim1 34 x.2 == Bytes.hexLower (md5 body)) = true
          · simp only [he, if_true, Option.some.injEq] at h
            subst h
            obtain ⟨hl, hall⟩ := (ih bs').mp hr
            refine ⟨by simp [hl], ?_⟩
            intro i hi hbi
            cases i with
            | zero => exact ⟨by simpa using hb, by simpa using he⟩
            | succ j =>
              have := hall j (by simpa using hi) (by simpa using hbi)
              simpa using this
          · simp [he] at h
    · rintro ⟨hl, hall⟩
      cases bs with
      | nil => simp at hl
      | cons body bs' =>
        have h0 := hall 0 (by simp) (by simp)
        simp only [List.getElem_cons_zero] at h0
        have hrest : specFold md5 u rest = some bs' := by
          apply (ih bs').mpr
          refine ⟨by simpa using hl, ?_⟩
          intro i hi hbi
          have := hall (i + 1) (by simpa using hi) (by simpa using hbi)
          simpa using this
        simp [hrest, h0.1, h0.2]

/-- **accepted_iff**: the clause of C06 in full -/
theorem accepted_iff (md5 : Bytes → Bytes) (u : Upload) (listed : List (Int × Bytes)) (bs : List Bytes) :
    accepted md5 u listed = some bs ↔
      ascending (listed.map (·.1)) = true ∧ bs.length = listed.length ∧
      ∀ i (hi : i < listed.length) (hb : i < bs.length),
        bodyOf u (listed[i]).1 = some bs[i] ∧ Bytes.trim1 34 (listed[i]).2 = Bytes.hexLower (md5 bs[i]) := by
  rw [accepted_eq]
  cases ha : ascending (listed.map (·.1)) with
  | false => simp
  | true => simp only [Bool.not_true, Bool.false_eq_true, if_false, true_and]; exact specFold_iff md5 u listed bs

/-- a part upload records its body as the most recent one of its number and of no other number -/
theorem bodyOf_setLatest (u : Upload) (n : Nat) (body : Bytes) (i : Int) (hi : 1 ≤ i) :
    bodyOf (setLatest u n body) i = if i.toNat = n then some body else bodyOf u i := by
  unfold bodyOf
  have : ¬ i < 1 := by omega
  simp only [this, if_false]
  exact find_setLatest u n i.toNat body

end GFS.Props.SpecM
