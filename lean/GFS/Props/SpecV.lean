import GFS.Props.C05R
set_option linter.unusedSimpArgs false
set_option linter.unusedVariables false
/-
  The specification machine Spec.Versions says what the statement of C05 says — checked clause by
  clause, so that "the store refines Spec.Versions" (Props/C05R) means what a reader of the
  property expects.  (A refinement of a wrong specification would prove nothing.)
-/
namespace GFS.Props.SpecV
open GFS GFS.Spec.Versions GFS.Props.C05R

/-- "every upload gets a … version and every earlier version stays retrievable": while Enabled an
    upload appends its entry and keeps every entry of the key -/
theorem put_enabled_appends (vb : VBucket) (k : Bytes) (id : Nat) (body : Bytes) (h : vb.status = .enabled) :
    entriesOf (put vb k id body) k = entriesOf vb k ++ [⟨id, false, body, true⟩] := by
  unfold put
  rw [entriesOf_setKey]
  simp [h]

/-- and touches no other key -/
theorem put_other_key (vb : VBucket) (k k' : Bytes) (id : Nat) (body : Bytes) (hk : k ≠ k') :
    entriesOf (put vb k id body) k' = entriesOf vb k' := by
  unfold put
  rw [entriesOf_setKey]
  simp [hk]

/-- "a plain delete only adds a delete marker": while Enabled, for a key that has entries -/
theorem delete_enabled_adds_marker (vb : VBucket) (k : Bytes) (mid : Nat) (h : vb.status = .enabled) (hne : entriesOf vb k ≠ []) :
    entriesOf (delete vb k mid) k = entriesOf vb k ++ [⟨mid, true, [], true⟩] := by
  unfold delete
  have : (entriesOf vb k).isEmpty = false := by
    cases he : entriesOf vb k with
    | nil => exact absurd he hne
    | cons _ _ => rfl
  simp only [this, Bool.false_eq_true, if_false, h, beq_self_eq_true, if_true]
  rw [entriesOf_setKey]
  simp

/-- "the key then reads as NoSuchKey while its versions remain" -/
theorem get_after_delete (vb : VBucket) (k : Bytes) (mid : Nat) (h : vb.status = .enabled) (hne : entriesOf vb k ≠ []) :
    Spec.Versions.get (delete vb k mid) k = .err .NoSuchKey := by
  unfold Spec.Versions.get newest
  rw [delete_enabled_adds_marker vb k mid h hne]
  simp

/-- "deleting a specific version removes just that version" -/
theorem deleteVersion_just_that (vb : VBucket) (k : Bytes) (id : Nat) :
    entriesOf (deleteVersion vb k id) k = (entriesOf vb k).filter (fun e => !(e.id == id)) := by
  unfold deleteVersion
  rw [entriesOf_setKey]
  simp

/-- "an unqualified read always serves the most recently created remaining version or NoSuchKey if
    that is a delete marker or nothing remains" -/
theorem get_is_newest (vb : VBucket) (k : Bytes) :
    Spec.Versions.get vb k = match (entriesOf vb k).getLast? with
      | none => .err .NoSuchKey
      | some e => if e.marker then .err .NoSuchKey else .ok e.body := rfl

/-- "Suspending versioning, and uploads or deletes made while it is suspended, never remove or
    alter versions created while it was enabled": the entries born while Enabled survive an upload
    and a plain delete in every status -/
theorem born_survive_put (vb : VBucket) (k : Bytes) (id : Nat) (body : Bytes) (e : VEntry)
    (he : e ∈ entriesOf vb k) (hb : e.born = true) : e ∈ entriesOf (put vb k id body) k := by
  unfold put
  rw [entriesOf_setKey]
  simp only [if_true, List.mem_append]
  left
  split
  · exact he
  · exact List.mem_filter.mpr ⟨he, hb⟩

theorem born_survive_delete (vb : VBucket) (k : Bytes) (mid : Nat) (e : VEntry)
    (he : e ∈ entriesOf vb k) (hb : e.born = true) : e ∈ entriesOf (delete vb k mid) k := by
  unfold delete
  by_cases hemp : (entriesOf vb k).isEmpty = true
  · simp only [hemp, if_true]; exact he
  · simp only [hemp, if_false]
    by_cases hen : (vb.status == Status.enabled) = true
    · simp only [hen, if_true, Bool.false_eq_true, if_false]; rw [entriesOf_setKey]; simp [he]
    · simp only [hen, if_false, Bool.false_eq_true]; rw [entriesOf_setKey]; simp only [if_true]; exact List.mem_filter.mpr ⟨he, hb⟩

/-- suspending (or re-enabling) changes no entry -/
theorem setStatus_keeps (vb : VBucket) (en : Bool) (k : Bytes) : entriesOf (setStatus vb en) k = entriesOf vb k := rfl

end GFS.Props.SpecV
