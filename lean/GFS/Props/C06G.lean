import GFS.Props.C06
import GFS.Props.C01
set_option linter.unusedSimpArgs false
set_option linter.unusedVariables false
/-
  C06 end to end: after an acknowledged CompleteMultipartUpload, reading the key returns exactly
  the concatenation of the listed parts' stored bodies, with the digest of those bytes, carrying
  every header given at initiation.
-/
namespace GFS.Props.C06G
open GFS GFS.Model GFS.Model.Upl GFS.Props.C06 GFS.Props.C01

/-- an acknowledged upload on the backend model is what the next read returns -/
theorem mem_put_get (md5 : Bytes → Bytes) (m : Mem) (b : Bytes) (k : Key) (md : Meta) (body : Bytes) (vid : Option Nat)
    (h : (m.put md5 b k md body).2 = .ok vid) :
    ∃ v, (m.put md5 b k md body).1.get b k = .ok v ∧ v.body = body ∧ v.hash = md5 body ∧ v.marker = false ∧
      v.md = m.mergedMeta b k md := by
  unfold Mem.put Mem.putCommit at *
  cases hb : SMap.find m.buckets b with
  | none => simp [hb] at h
  | some bk =>
    simp only [hb]
    exact ⟨⟨m.nextVer + 1, false, body, md5 body, m.mergedMeta b k md⟩,
      by simp [Mem.get, Mem.current, SMap.find_insert_self, Bucket.put], rfl, rfl, rfl, rfl⟩

/-- **complete_then_get**: an acknowledged complete is followed by a read of the key that returns
    exactly the concatenation, in listed order, of the stored bodies of the listed parts — each the
    most recent upload of its part number, with the listed ETag (checkParts_spec) —, the MD5 of
    those bytes as the object's digest, and every header given at initiation unchanged. -/
theorem complete_then_get (md5 : Bytes → Bytes) (u : Upl) (mem : Mem) (b : Bytes) (k : Key) (id : Nat)
    (listed : List (Int × Bytes)) (vid : Option Nat) (etag : Bytes)
    (h : (complete md5 u mem b k id listed).2.2 = .ok (vid, etag)) :
    ∃ bu m ps v, u.get b k id = .ok (bu, m) ∧ checkParts m.parts listed = .ok ps ∧
      (complete md5 u mem b k id listed).2.1.get b k = .ok v ∧
      v.body = (ps.map (·.body)).flatten ∧ v.hash = md5 v.body ∧
      (∀ hk hv, SMap.find m.md hk = some hv → SMap.find v.md hk = some hv) ∧
      etag = mpEtag md5 ps := by
  obtain ⟨bu, m, ps, hg, hv, he, hm, _⟩ := complete_ok md5 u mem b k id listed vid etag h
  obtain ⟨hcp, _⟩ := validate_ok_checkParts m listed ps hv
  -- the put inside complete was acknowledged
  have hput : ∃ vid', (mem.put md5 b k m.md (ps.map (·.body)).flatten).2 = .ok vid' := by
    unfold complete at h
    simp only [hg, hv] at h
    cases hp : mem.put md5 b k m.md (ps.map (·.body)).flatten with
    | mk mem' r =>
      cases r with
      | ok w => exact ⟨w, rfl⟩
      | err e => simp [hp] at h
      | panic s => simp [hp] at h
  obtain ⟨vid', hput⟩ := hput
  obtain ⟨v, hget, hb1, hb2, _, hmd⟩ := mem_put_get md5 mem b k m.md _ vid' hput
  refine ⟨bu, m, ps, v, hg, hcp, by rw [hm]; exact hget, hb1, by rw [hb2, hb1], ?_, he⟩
  intro hk hv' hf
  rw [hmd]
  unfold Mem.mergedMeta
  cases mem.current b k with
  | ok old => exact mergeMeta_keeps_new m.md old.md hk hv' hf
  | err c => exact hf
  | panic s => exact hf

end GFS.Props.C06G
