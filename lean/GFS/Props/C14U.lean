import GFS.Props.C14
import GFS.Props.C03G
set_option linter.unusedSimpArgs false
set_option linter.unusedVariables false
/-
  C14, ListMultipartUploads without paging: exactly the pending uploads of the matching keys, by
  key and then by initiation, each once; grouped keys reported as common prefixes, each once.
-/
namespace GFS.Props.C14U
open GFS GFS.Model GFS.Model.Upl GFS.Props.C03G

def uploadsOfKey (p : Prefix) (q : Key × List Nat) : List UploadItem :=
  match p.match_ q.1 with
  | some (false, _) => q.2.map (fun i => ⟨q.1, i⟩)
  | _ => []

def prefixOfKey (p : Prefix) (q : Key × List Nat) : Option Bytes :=
  match p.match_ q.1 with
  | some (true, mp) => some mp
  | _ => none

def total (p : Prefix) (entries : List (Key × List Nat)) : Nat := (entries.flatMap (uploadsOfKey p)).length

theorem take_all (limit : Int) (k : Key) (is : List Nat) (cnt : Int) (acc : UploadList)
    (h : cnt + is.length < limit) :
    listUploadsLoop.take limit k is cnt acc =
      ({ acc with uploads := acc.uploads ++ is.map (fun i => ⟨k, i⟩) }, cnt + is.length, false) := by
  induction is generalizing cnt acc with
  | nil => simp [listUploadsLoop.take]
  | cons i more ih =>
    unfold listUploadsLoop.take
    have hlt : ¬ cnt + 1 ≥ limit := by simp at h; omega
    simp only [hlt, if_false]
    rw [ih (cnt + 1) _ (by simp at h ⊢; omega)]
    simp only [List.map_cons, List.length_cons, List.append_assoc, List.singleton_append, Prod.mk.injEq, and_true, true_and]
    omega

/-- the loop without marker and with a limit above the number of uploads -/
theorem listUploadsLoop_unpaged (p : Prefix) (limit : Int) (entries : List (Key × List Nat)) (cnt : Int) (acc : UploadList)
    (h : cnt + total p entries < limit) :
    listUploadsLoop p limit entries none cnt acc =
      { acc with uploads := acc.uploads ++ entries.flatMap (uploadsOfKey p),
                 prefixes := addAll acc.prefixes (entries.filterMap (prefixOfKey p)) } := by
  induction entries generalizing cnt acc with
  | nil => simp [listUploadsLoop, addAll]
  | cons q rest ih =>
    obtain ⟨k, ids⟩ := q
    have hsplit : total p ((k, ids) :: rest) = (uploadsOfKey p (k, ids)).length + total p rest := by
      simp [total, List.flatMap_cons]
    unfold listUploadsLoop
    cases hm : p.match_ k with
    | none =>
      simp only
      have h0 : uploadsOfKey p (k, ids) = [] := by simp [uploadsOfKey, hm]
      rw [ih cnt acc (by rw [hsplit, h0] at h; simpa using h)]
      simp [List.flatMap_cons, h0, prefixOfKey, hm, List.filterMap_cons]
    | some r =>
      obtain ⟨cp, mp⟩ := r
      cases cp with
      | true =>
        have h0 : uploadsOfKey p (k, ids) = [] := by simp [uploadsOfKey, hm]
        simp only [Bool.false_eq_true, if_false, if_true]
        rw [ih cnt _ (by rw [hsplit, h0] at h; simpa using h)]
        by_cases hc : mp ∈ acc.prefixes
        · simp [List.flatMap_cons, h0, prefixOfKey, hm, List.filterMap_cons, addAll_cons, hc]
        · simp [List.flatMap_cons, h0, prefixOfKey, hm, List.filterMap_cons, addAll_cons, hc]
      | false =>
        have h0 : uploadsOfKey p (k, ids) = ids.map (fun i => ⟨k, i⟩) := by simp [uploadsOfKey, hm]
        have hlen : cnt + ids.length < limit := by
          rw [hsplit, h0] at h; simp at h; omega
        simp only [Bool.false_eq_true, if_false, take_all limit k ids cnt acc hlen]
        rw [ih (cnt + ids.length) _ (by rw [hsplit, h0] at h; simp at h ⊢; omega)]
        simp [List.flatMap_cons, h0, prefixOfKey, hm, List.filterMap_cons, List.append_assoc]

/-- **listUploads_exact**: for every uploader state, bucket, prefix and delimiter, listing without
    marker and with a limit above the number of matching uploads answers, not truncated, with exactly
    the upload ids the bookkeeping holds for each matching key — key by key in the index's (ascending
    key) order, within a key in the order the index holds them (initiation order, see
    `create_appends`) — each once, and each common prefix once. -/
theorem listUploads_exact (u : Upl) (b : Bytes) (bu : BUps) (hb : SMap.find u.buckets b = some bu) (p : Prefix) (limit : Int)
    (h : total p bu.index < limit) :
    u.listUploads b p [] none limit =
      .ok ⟨bu.index.flatMap (uploadsOfKey p), addAll [] (bu.index.filterMap (prefixOfKey p)), false, [], none⟩ := by
  unfold listUploads
  simp only [hb, List.isEmpty_nil, if_true]
  rw [listUploadsLoop_unpaged p limit bu.index 0 _ (by simpa using h)]
  simp

/-- initiating an upload appends its id after the ids the key already has: within a key the index
    is in initiation order -/
theorem create_appends (bu : BUps) (m : MPU) :
    SMap.find (bu.add m).index m.key = some ((SMap.find bu.index m.key).getD [] ++ [m.id]) := by
  simp [BUps.add, SMap.find_insert_self]

/-- completing or aborting an upload removes exactly its id from its key's list -/
theorem remove_filters (bu : BUps) (m : MPU) :
    (SMap.find (bu.remove m).index m.key).getD [] = ((SMap.find bu.index m.key).getD []).filter (fun i => !(i == m.id)) := by
  unfold BUps.remove
  simp only
  split
  · rename_i he
    simp only [SMap.find_erase_self, Option.getD_none]
    have : ((SMap.find bu.index m.key).getD []).filter (fun i => !(i == m.id)) = [] := by simpa using he
    rw [this]
  · simp [SMap.find_insert_self]

/-! Non-vacuity -/
example : (Upl.listUploads ⟨[([98], ⟨[], [([97], [1, 3]), ([100, 47, 120], [2])]⟩)], 3⟩ [98] ⟨false, [], true, 47⟩ [] none 1000) =
    .ok ⟨[⟨[97], 1⟩, ⟨[97], 3⟩], [[100, 47]], false, [], none⟩ := by decide

end GFS.Props.C14U
