import GFS.Model.Uploader
set_option linter.unusedSimpArgs false
set_option linter.unusedVariables false
/-
  C06 — completing a multipart upload stores exactly the listed parts, once, or nothing.
  Theorems about the uploader state machine (uploader.go), parametric in the digest.
-/
namespace GFS.Props.C06
open GFS GFS.Model GFS.Model.Upl

/-! ### part slots -/

/-- re-uploading a part number overwrites exactly that slot -/
theorem setPart_self (parts : List (Option Part)) (n : Nat) (p : Part) :
    (setPart parts n p)[n]? = some (some p) := by
  unfold setPart
  split
  · simp [List.getElem?_set]; omega
  · simp [List.getElem?_set]; omega

theorem setPart_other (parts : List (Option Part)) (n i : Nat) (p : Part) (h : i ≠ n) (hi : i < parts.length) :
    (setPart parts n p)[i]? = parts[i]? := by
  unfold setPart
  split
  · rw [List.getElem?_set_ne (Ne.symm h)]
    rw [List.getElem?_append_left hi]
  · rw [List.getElem?_set_ne (Ne.symm h)]

/-! ### completing -/

/-- an error from `PutObject` leaves the store as it was -/
theorem put_err_unchanged (md5 : Bytes → Bytes) (m : Mem) (b : Bytes) (k : Key) (md : Meta) (body : Bytes) (c : ErrCode)
    (h : (m.put md5 b k md body).2 = .err c) : (m.put md5 b k md body).1 = m := by
  unfold Mem.put Mem.putCommit at *
  cases hb : SMap.find m.buckets b with
  | none => simp [hb]
  | some bk => simp [hb] at h

/-- **complete_rejects_unchanged**: whatever the request (unknown upload, a part list longer
    than the slots, an out-of-order list, a part number below 1 or never uploaded, a wrong or
    stale ETag), a complete request that is answered with an error leaves both the stored
    objects and the pending uploads exactly as they were. -/
theorem complete_rejects_unchanged (md5 : Bytes → Bytes) (u : Upl) (mem : Mem) (b : Bytes) (k : Key) (id : Nat)
    (listed : List (Int × Bytes)) (c : ErrCode)
    (h : (complete md5 u mem b k id listed).2.2 = .err c) :
    (complete md5 u mem b k id listed).1 = u ∧ (complete md5 u mem b k id listed).2.1 = mem := by
  unfold complete at *
  cases hg : u.get b k id with
  | err e => simp [hg]
  | panic s => simp [hg]
  | ok r =>
    obtain ⟨bu, m⟩ := r
    simp only [hg] at h ⊢
    cases hv : validate m listed with
    | err e => simp [hv]
    | panic s => simp [hv]
    | ok ps =>
      simp only [hv] at h ⊢
      cases hp : mem.put md5 b k m.md (ps.map (·.body)).flatten with
      | mk mem' r =>
        cases r with
        | ok v => simp [hp] at h
        | panic s => simp [hp] at h
        | err e =>
          simp only [hp]
          have := put_err_unchanged md5 mem b k m.md (ps.map (·.body)).flatten e (by rw [hp])
          rw [hp] at this
          exact ⟨trivial, this⟩

/-- what `validate` rejects: a list longer than the slots, a descending pair, and whatever
    `checkParts` rejects (a number below 1, a part never uploaded, a wrong ETag) -/
theorem validate_rejects_descending (m : MPU) (listed : List (Int × Bytes))
    (hlen : listed.length ≤ m.parts.length) (hd : sortedInts (listed.map (·.1)) = false) :
    validate m listed = .err .InvalidPartOrder := by
  unfold validate
  have : ¬ listed.length > m.parts.length := by omega
  simp [this, hd]

/-- the parts `checkParts` returns are exactly the ones stored under the listed numbers, in
    the listed order, and every listed ETag matches the stored part (quotes ignored) -/
theorem checkParts_spec (parts : List (Option Part)) (listed : List (Int × Bytes)) (ps : List Part)
    (h : checkParts parts listed = .ok ps) :
    ps.length = listed.length ∧
    ∀ i (hi : i < listed.length), 1 ≤ (listed[i]).1 ∧
      ∃ p, parts[(listed[i]).1.toNat]? = some (some p) ∧ ps[i]? = some p ∧
        trimQuotes (listed[i]).2 = Bytes.hexLower p.hash := by
  induction listed generalizing ps with
  | nil =>
    simp only [checkParts, Res.ok.injEq] at h
    subst h
    exact ⟨rfl, fun i hi => absurd hi (by simp)⟩
  | cons e rest ih =>
    obtain ⟨n, etag⟩ := e
    unfold checkParts at h
    split at h
    · simp at h
    · rename_i hn
      split at h
      · rename_i p hp
        split at h
        · simp at h
        · rename_i he
          cases hr : checkParts parts rest with
          | err c => simp [hr] at h
          | panic s => simp [hr] at h
          | ok ps' =>
            simp only [hr, Res.ok.injEq] at h
            subst h
            obtain ⟨hl, hall⟩ := ih ps' hr
            refine ⟨by simp [hl], ?_⟩
            intro i hi
            cases i with
            | zero =>
              refine ⟨by simp only [List.getElem_cons_zero]; omega, p, ?_, by simp, ?_⟩
              · simpa using hp
              · simp only [List.getElem_cons_zero]
                simpa [bne_iff_ne] using he
            | succ j =>
              have hj : j < rest.length := by simpa using hi
              obtain ⟨h1, q, h2, h3, h4⟩ := hall j hj
              exact ⟨by simpa using h1, q, by simpa using h2, by simpa using h3, by simpa using h4⟩
      · simp at h

/-- **complete_ok**: when a complete request is acknowledged, the object body handed to the
    backend is exactly the concatenation of the stored bodies of the listed parts in the listed
    order, the ETag is hex(md5(md5(p1)…md5(pn))) "-" n, the metadata is the initiation metadata,
    and the upload is removed from the bookkeeping. -/
theorem complete_ok (md5 : Bytes → Bytes) (u : Upl) (mem : Mem) (b : Bytes) (k : Key) (id : Nat)
    (listed : List (Int × Bytes)) (vid : Option Nat) (etag : Bytes)
    (h : (complete md5 u mem b k id listed).2.2 = .ok (vid, etag)) :
    ∃ bu m ps, u.get b k id = .ok (bu, m) ∧ validate m listed = .ok ps ∧
      etag = mpEtag md5 ps ∧
      (complete md5 u mem b k id listed).2.1 = (mem.put md5 b k m.md (ps.map (·.body)).flatten).1 ∧
      (complete md5 u mem b k id listed).1.buckets = SMap.insert u.buckets b (bu.remove m) := by
  unfold complete at *
  cases hg : u.get b k id with
  | err e => simp [hg] at h
  | panic s => simp [hg] at h
  | ok r =>
    obtain ⟨bu, m⟩ := r
    simp only [hg] at h ⊢
    cases hv : validate m listed with
    | err e => simp [hv] at h
    | panic s => simp [hv] at h
    | ok ps =>
      simp only [hv] at h ⊢
      cases hp : mem.put md5 b k m.md (ps.map (·.body)).flatten with
      | mk mem' r =>
        cases r with
        | err e => simp [hp] at h
        | panic s => simp [hp] at h
        | ok v =>
          simp only [hp, Res.ok.injEq, Prod.mk.injEq] at h
          exact ⟨bu, m, ps, rfl, hv, h.2.symm, by simp [hp], by simp [hp]⟩

/-- an accepted list passed `checkParts` (so `checkParts_spec` describes the stored body) -/
theorem validate_ok_checkParts (m : MPU) (listed : List (Int × Bytes)) (ps : List Part)
    (h : validate m listed = .ok ps) :
    checkParts m.parts listed = .ok ps ∧ sortedInts (listed.map (·.1)) = true := by
  unfold validate at h
  split at h
  · simp at h
  · split at h
    · simp at h
    · rename_i hs
      exact ⟨h, by simpa using hs⟩

/-- after the removal the upload is gone: every later operation on the id answers NoSuchUpload -/
theorem removed_is_gone (bu : BUps) (m : MPU) : (bu.remove m).find m.id = none := by
  unfold BUps.remove BUps.find
  simp only [Option.map_eq_none_iff]
  rw [List.find?_eq_none]
  intro p hp
  simp only [List.mem_filter] at hp
  simpa using hp.2

/-- **abort_discards**: abort takes the upload out of the bookkeeping of its bucket and cannot
    touch any object (it has no access to the store) -/
theorem abort_discards (u : Upl) (b : Bytes) (k : Key) (id : Nat) (h : (u.abort b k id).2 = .ok ()) :
    ∃ bu m, u.get b k id = .ok (bu, m) ∧
      (u.abort b k id).1.buckets = SMap.insert u.buckets b (bu.remove m) ∧ (bu.remove m).find m.id = none := by
  unfold abort at *
  cases hg : u.get b k id with
  | err e => simp [hg] at h
  | panic s => simp [hg] at h
  | ok r =>
    obtain ⟨bu, m⟩ := r
    exact ⟨bu, m, rfl, by simp [hg], removed_is_gone bu m⟩

/-! Non-vacuity: one upload with parts 1 and 2, completed in order. -/
example : (complete id (Upl.create Upl.empty [98] [107] []).1 (Mem.createBucket Mem.empty [98]).1 [98] [107] 1 []).2.2
    = .ok (none, mpEtag id []) := by rfl

end GFS.Props.C06
