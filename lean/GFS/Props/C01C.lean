import GFS.Props.C06G
import GFS.Props.C10
set_option linter.unusedSimpArgs false
set_option linter.unusedVariables false
/-
  C01 for the copy path, at the handler level over the s3mem backend model: an acknowledged copy
  leaves the destination reading exactly the source's bytes with the digest of those bytes and
  every header the copy request carried, answers with the source's digest, and leaves the source
  (any other key or bucket, in fact) reading as before.
-/
namespace GFS.Props.C01C
open GFS GFS.Model GFS.Props.C01 GFS.Props.C06G

/-- **copy_roundtrip**: if the copy handler acknowledges a copy of (sb, sk) to (db, dk) then, in
    the state `m1` the copy ran on (the given one, or the one with the destination bucket created
    on the fly under auto-bucket), the source read as some version `src`; the answer carries its
    digest; afterwards the destination reads exactly `src`'s bytes, with `md5` of those bytes as
    digest and every header sent with the copy request unchanged; and every other (bucket, key) —
    the source in particular, unless it is the destination itself — reads as it did in `m1`. -/
theorem copy_roundtrip (md5 : Bytes → Bytes) (cfg : Cfg) (m : Mem) (sb : Bytes) (sk : Key) (db : Bytes) (dk : Key) (sent : Meta)
    (m' : Mem) (h : Bytes) (sv : Option Nat)
    (hc : Front.copyObject md5 cfg m sb sk db dk sent = (m', .copied h sv)) :
    ∃ m1 src, (Front.ensureBucket cfg m db).1 = m1 ∧ m1.get sb sk = .ok src ∧ h = src.hash ∧
      (∃ v, m'.get db dk = .ok v ∧ v.body = src.body ∧ v.hash = md5 src.body ∧ v.marker = false ∧
        ∀ k x, SMap.find sent k = some x → SMap.find v.md k = some x) ∧
      ∀ b' k', (db ≠ b' ∨ dk ≠ k') → m'.get b' k' = m1.get b' k' := by
  unfold Front.copyObject Front.withBucket at hc
  cases he : Front.ensureBucket cfg m db with
  | mk m1 r =>
    rw [he] at hc
    cases r with
    | err c => simp at hc
    | panic s => simp at hc
    | ok u =>
      simp only at hc
      split at hc
      · simp at hc
      · cases hh : m1.head sb sk with
        | err c => simp [hh] at hc
        | panic s => simp [hh] at hc
        | ok hsrc =>
          simp only [hh] at hc
          cases hg : m1.get sb sk with
          | err c => simp [hg] at hc
          | panic s => simp [hg] at hc
          | ok src =>
            simp only [hg] at hc
            cases hp : Mem.put md5 m1 db dk (mergeMeta sent (hsrc.md.filter (fun p => !(p.1 == Front.aclKey)))) src.body with
            | mk m2 r2 =>
              rw [hp] at hc
              cases r2 with
              | err c => simp at hc
              | panic s => simp at hc
              | ok w =>
                simp only [Prod.mk.injEq, Out.copied.injEq] at hc
                obtain ⟨hm, hhash, _⟩ := hc
                subst hm
                refine ⟨m1, src, rfl, hg, hhash.symm, ?_, ?_⟩
                · obtain ⟨v, hget, hb1, hb2, hmk, hmd⟩ :=
                    mem_put_get md5 m1 db dk (mergeMeta sent (hsrc.md.filter (fun p => !(p.1 == Front.aclKey)))) src.body w (by rw [hp])
                  rw [hp] at hget
                  refine ⟨v, hget, hb1, hb2, hmk, ?_⟩
                  intro k x hf
                  rw [hmd]
                  have h1 := mergeMeta_keeps_new sent (hsrc.md.filter (fun p => !(p.1 == Front.aclKey))) k x hf
                  unfold Mem.mergedMeta
                  cases m1.current db dk with
                  | ok old => exact mergeMeta_keeps_new _ old.md k x h1
                  | err c => exact h1
                  | panic s => exact h1
                · intro b' k' hne
                  have := C10.put_frame md5 m1 db b' dk k' (mergeMeta sent (hsrc.md.filter (fun p => !(p.1 == Front.aclKey)))) src.body hne
                  rw [hp] at this
                  exact this

/-! Non-vacuity: a copy inside one bucket; destination reads the source's bytes, source unchanged. -/
def exM : Mem := ((Mem.createBucket Mem.empty [98]).1.put id [98] [115] [([67], [1])] [7, 8]).1
example : (Front.copyObject id {} exM [98] [115] [98] [100] [([88], [2])]).2 = .copied [7, 8] (some 1) := by decide

end GFS.Props.C01C
