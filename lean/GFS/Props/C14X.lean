import GFS.Props.C14L
import GFS.Props.C03R
set_option linter.unusedSimpArgs false
set_option linter.unusedVariables false
/-
  C14, first clause, end to end: ListMultipartUploads shows exactly the uploads that are pending.

  `IdxB`: the per-key index the listing walks (`bucketUploads.objectIndex`) holds an id under a
  key exactly when the upload table holds that id with that key — kept by initiate, upload-part,
  abort and complete (`uidx_step`).  With `C14U.listUploads_exact` (the unpaginated listing is the
  index), `C14L.live_exact` (pending = initiated and neither completed nor aborted) and
  `C14P/C14I` (every paged walk is the unpaginated listing): `listing_is_live`.
-/
namespace GFS.Props.C14X
open GFS GFS.Model GFS.Model.Upl GFS.Props.C06 GFS.Props.C06F GFS.Props.C06R GFS.Props.C14L
open GFS.Props.C14I (Op step)

/-- the ids the index holds under key k -/
def idsOf (bu : BUps) (k : Key) : List Nat := (SMap.find bu.index k).getD []

/-- index and upload table agree, and every upload of this bucket's table names this bucket -/
structure IdxB (b : Bytes) (bu : BUps) : Prop where
  agree : ∀ k id, id ∈ idsOf bu k ↔ ∃ m, bu.find id = some m ∧ m.key = k
  mine  : ∀ id m, bu.find id = some m → m.bucket = b ∧ m.id = id

theorem find_add (bu : BUps) (m : MPU) (id : Nat) : (bu.add m).find id = if id = m.id then some m else bu.find id := by
  unfold BUps.add BUps.find
  simp only [List.find?_append]
  by_cases h : id = m.id
  · subst h
    have : (bu.uploads.filter (fun p => !(p.1 == m.id))).find? (·.1 == m.id) = none := by
      apply List.find?_eq_none.mpr
      intro x hx
      have := (List.mem_filter.mp hx).2
      simpa using this
    simp [this]
  · have hne : (m.id == id) = false := by simpa using (Ne.symm h)
    have h2 := find_filter_ne bu.uploads m.id id h
    simp only [h, if_false]
    cases hq : (bu.uploads.filter (fun p => !(p.1 == m.id))).find? (·.1 == id) with
    | some q => rw [hq] at h2; simp [← h2]
    | none => rw [hq] at h2; simp [List.find?, hne, ← h2]

theorem find_remove (bu : BUps) (m : MPU) (id : Nat) : (bu.remove m).find id = if id = m.id then none else bu.find id := by
  by_cases h : id = m.id
  · subst h; simp [removed_is_gone]
  · simp [h, find_remove_ne bu m id h]

theorem idsOf_add (bu : BUps) (m : MPU) (k : Key) :
    idsOf (bu.add m) k = if m.key = k then idsOf bu k ++ [m.id] else idsOf bu k := by
  unfold idsOf BUps.add
  by_cases h : m.key = k
  · subst h; simp [SMap.find_insert_self]
  · simp [h, SMap.find_insert_ne _ _ _ _ h]

theorem idsOf_remove (bu : BUps) (m : MPU) (k : Key) :
    idsOf (bu.remove m) k = if m.key = k then (idsOf bu k).filter (fun i => !(i == m.id)) else idsOf bu k := by
  unfold idsOf BUps.remove
  simp only
  by_cases h : m.key = k
  · subst h
    simp only [if_true]
    split
    · rename_i he
      have : ((SMap.find bu.index m.key).getD []).filter (fun i => !(i == m.id)) = [] := List.isEmpty_iff.mp he
      simp [SMap.find_erase_self, this]
    · simp [SMap.find_insert_self]
  · simp only [h, if_false]
    split
    · simp [SMap.find_erase_ne _ _ _ h]
    · simp [SMap.find_insert_ne _ _ _ _ h]

theorem idx_add (b : Bytes) (bu : BUps) (m : MPU) (h : IdxB b bu) (hfresh : bu.find m.id = none) (hb : m.bucket = b) :
    IdxB b (bu.add m) := by
  constructor
  · intro k id
    rw [idsOf_add, find_add]
    by_cases hid : id = m.id
    · subst hid
      simp only [if_true]
      by_cases hk : m.key = k
      · simp [hk]
      · simp only [hk, if_false]
        constructor
        · intro hin
          obtain ⟨m', hm', _⟩ := (h.agree k m.id).mp hin
          rw [hfresh] at hm'; cases hm'
        · rintro ⟨m', hm', hk'⟩
          simp only [Option.some.injEq] at hm'
          subst hm'; exact absurd hk' hk
    · simp only [hid, if_false]
      by_cases hk : m.key = k
      · simp only [hk, if_true, List.mem_append, List.mem_singleton, hid, or_false]
        exact h.agree k id
      · simp only [hk, if_false]; exact h.agree k id
  · intro id m' hm'
    rw [find_add] at hm'
    by_cases hid : id = m.id
    · simp only [hid, if_true, Option.some.injEq] at hm'; subst hm'; exact ⟨hb, hid.symm⟩
    · simp only [hid, if_false] at hm'; exact h.mine id m' hm'

theorem find_set (bu : BUps) (m m' : MPU) (id : Nat) (hf : bu.find m.id = some m) (hid : m'.id = m.id) :
    (bu.set m').find id = if id = m.id then some m' else bu.find id := by
  by_cases h : id = m.id
  · subst h
    simp only [if_true]
    unfold BUps.set BUps.find
    unfold BUps.find at hf
    exact find_map_set_self bu.uploads m m' m.id hf hid
  · simp only [h, if_false]
    exact find_set_ne bu m' id (by rw [hid]; exact h)

theorem idx_set (b : Bytes) (bu : BUps) (m m' : MPU) (h : IdxB b bu) (hf : bu.find m.id = some m)
    (hid : m'.id = m.id) (hk : m'.key = m.key) (hb : m'.bucket = m.bucket) : IdxB b (bu.set m') := by
  constructor
  · intro k id
    have : idsOf (bu.set m') k = idsOf bu k := rfl
    rw [this, find_set bu m m' id hf hid, h.agree k id]
    by_cases hi : id = m.id
    · subst hi
      simp only [if_true, hf, Option.some.injEq, exists_eq_left', hk]
    · simp [hi]
  · intro id x hx
    rw [find_set bu m m' id hf hid] at hx
    by_cases hi : id = m.id
    · simp only [hi, if_true, Option.some.injEq] at hx
      subst hx
      have := h.mine m.id m hf
      exact ⟨by rw [hb]; exact this.1, by rw [hid]; exact hi.symm ▸ rfl⟩
    · simp only [hi, if_false] at hx; exact h.mine id x hx

theorem idx_remove (b : Bytes) (bu : BUps) (m : MPU) (h : IdxB b bu) (hf : bu.find m.id = some m) : IdxB b (bu.remove m) := by
  constructor
  · intro k id
    rw [idsOf_remove, find_remove]
    by_cases hid : id = m.id
    · subst hid
      simp only [if_true]
      by_cases hk : m.key = k
      · simp [hk]
      · simp only [hk, if_false]
        constructor
        · intro hin
          obtain ⟨m', hm', hk'⟩ := (h.agree k m.id).mp hin
          rw [hf] at hm'
          simp only [Option.some.injEq] at hm'
          subst hm'; exact absurd hk' hk
        · rintro ⟨m', hm', _⟩; cases hm'
    · simp only [hid, if_false]
      by_cases hk : m.key = k
      · simp only [hk, if_true, List.mem_filter]
        have : (!(id == m.id)) = true := by simpa using hid
        simp only [this, and_true]
        exact h.agree k id
      · simp only [hk, if_false]; exact h.agree k id
  · intro id x hx
    rw [find_remove] at hx
    by_cases hid : id = m.id
    · simp [hid] at hx
    · simp only [hid, if_false] at hx; exact h.mine id x hx

/-- the invariant at the level of the uploader -/
def UIdx (u : Upl) : Prop := ∀ b bu, SMap.find u.buckets b = some bu → IdxB b bu

theorem uidx_insert (u : Upl) (b : Bytes) (bu' : BUps) (n : Nat) (h : UIdx u) (hb : IdxB b bu') :
    UIdx ⟨SMap.insert u.buckets b bu', n⟩ := by
  intro b2 bu2 h2
  by_cases hbb : b = b2
  · subst hbb
    simp only [SMap.find_insert_self, Option.some.injEq] at h2
    subst h2; exact hb
  · simp only [SMap.find_insert_ne _ _ _ _ hbb] at h2
    exact h b2 bu2 h2

theorem idxB_empty (b : Bytes) : IdxB b ⟨[], []⟩ :=
  ⟨fun k id => by simp [idsOf, BUps.find], fun id m h => by simp [BUps.find] at h⟩

theorem find_le (u : Upl) (hb : UBound u) (b : Bytes) (bu : BUps) (h : SMap.find u.buckets b = some bu) (id : Nat) (m : MPU)
    (hf : bu.find id = some m) : id ≤ u.nextId := by
  unfold BUps.find at hf
  cases hq : bu.uploads.find? (·.1 == id) with
  | none => simp [hq] at hf
  | some q =>
    have hmem := List.mem_of_find?_eq_some hq
    have hid : q.1 = id := by simpa using List.find?_some hq
    have := hb b bu h q hmem
    omega

/-- **uidx_step**: every request keeps index and upload table in agreement -/
theorem uidx_step (md5 : Bytes → Bytes) (s : Srv) (op : Op) (hi : SInv s) (h : UIdx s.upl) : UIdx (step md5 s op).upl := by
  cases op with
  | store m => exact h
  | initiate b k md =>
    simp only [step, Upl.create]
    apply uidx_insert s.upl b _ _ h
    cases hf : SMap.find s.upl.buckets b with
    | none =>
      simp only [Option.getD_none]
      exact idx_add b ⟨[], []⟩ _ (idxB_empty b) (by simp [BUps.find]) rfl
    | some bu =>
      simp only [Option.getD_some]
      refine idx_add b bu _ (h b bu hf) ?_ rfl
      cases hq : bu.find (s.upl.nextId + 1) with
      | none => rfl
      | some m => have := find_le s.upl hi.bound b bu hf _ m hq; omega
  | part b k id n d body =>
    simp only [step]
    unfold Upl.uploadPart
    split
    · exact h
    · split
      · exact h
      · cases hg : s.upl.get b k id with
        | err c => exact h
        | panic x => exact h
        | ok r =>
          obtain ⟨bu, m⟩ := r
          obtain ⟨hb, hf⟩ := get_ok s.upl b k id bu m hg
          have hid : m.id = id := find_keyed bu id m (hi.keyed b bu hb) hf
          simp only
          apply uidx_insert s.upl b _ _ h
          exact idx_set b bu m _ (h b bu hb) (by rw [hid]; exact hf) rfl rfl rfl
  | abort b k id =>
    simp only [step]
    unfold Upl.abort
    cases hg : s.upl.get b k id with
    | err c => exact h
    | panic x => exact h
    | ok r =>
      obtain ⟨bu, m⟩ := r
      obtain ⟨hb, hf⟩ := get_ok s.upl b k id bu m hg
      have hid : m.id = id := find_keyed bu id m (hi.keyed b bu hb) hf
      exact uidx_insert s.upl b _ _ h (idx_remove b bu m (h b bu hb) (by rw [hid]; exact hf))
  | complete b k id listed =>
    simp only [step]
    unfold Upl.complete
    cases hg : s.upl.get b k id with
    | err c => exact h
    | panic x => exact h
    | ok r =>
      obtain ⟨bu, m⟩ := r
      obtain ⟨hb, hf⟩ := get_ok s.upl b k id bu m hg
      have hid : m.id = id := find_keyed bu id m (hi.keyed b bu hb) hf
      simp only
      cases validate m listed with
      | err c => exact h
      | panic x => exact h
      | ok ps =>
        simp only
        cases hq : s.mem.put md5 b k m.md (ps.map (·.body)).flatten with
        | mk mem' r =>
          cases r with
          | ok v => exact uidx_insert s.upl b _ _ h (idx_remove b bu m (h b bu hb) (by rw [hid]; exact hf))
          | err c => exact h
          | panic x => exact h

theorem uidx_run (md5 : Bytes → Bytes) (ops : List Op) : ∀ s, SInv s → UIdx s.upl →
    SInv (ops.foldl (step md5) s) ∧ UIdx (ops.foldl (step md5) s).upl := by
  induction ops with
  | nil => intro s hi h; exact ⟨hi, h⟩
  | cons op ops ih => intro s hi h; exact ih _ (step_sinv md5 s op hi) (uidx_step md5 s op hi h)

theorem uidx_empty : UIdx Upl.empty := by intro b bu h; simp [Upl.empty] at h

/-- an id is filed under a key of bucket b's index exactly when that upload is pending there -/
theorem index_is_pending (u : Upl) (h : UIdx u) (b : Bytes) (bu : BUps) (hb : SMap.find u.buckets b = some bu) (k : Key) (id : Nat) :
    id ∈ idsOf bu k ↔ (pending u b k id).isSome = true := by
  rw [(h b bu hb).agree k id]
  unfold pending Upl.get
  simp only [hb]
  constructor
  · rintro ⟨m, hm, hk⟩
    have := ((h b bu hb).mine id m hm).1
    simp [hm, this, hk]
  · intro hp
    cases hf : bu.find id with
    | none => simp [hf] at hp
    | some m =>
      simp only [hf] at hp
      by_cases hc : (m.bucket == b && m.key == k) = true
      · simp only [Bool.and_eq_true, beq_iff_eq] at hc
        exact ⟨m, rfl, hc.2⟩
      · simp [hc] at hp

/-- **listing_is_live**: after every finite sequence of multipart requests from the empty uploader,
    for every bucket with bookkeeping: the unpaginated ListMultipartUploads (no prefix) lists
    (key, id) exactly when (bucket, key, id) is live — initiated and neither aborted nor completed
    with an acknowledged complete.  (`C14I.reachable_uploads_walk_exact` carries the unpaginated
    listing to every paged walk, `C14U.listUploads_exact` gives order and grouping.) -/
theorem listing_is_live (md5 : Bytes → Bytes) (ops : List Op) (mem : Mem) (b : Bytes) (bu : BUps)
    (hb : SMap.find (liveRun md5 ⟨mem, Upl.empty⟩ [] ops).1.upl.buckets b = some bu) (k : Key) (id : Nat) :
    id ∈ idsOf bu k ↔ (b, k, id) ∈ (liveRun md5 ⟨mem, Upl.empty⟩ [] ops).2 := by
  obtain ⟨hi, hl⟩ := live_exact md5 ops ⟨mem, Upl.empty⟩ [] (sinv_empty mem) (live_empty mem)
  have hrun := liveRun_fst md5 ops ⟨mem, Upl.empty⟩ []
  obtain ⟨_, hu⟩ := uidx_run md5 ops ⟨mem, Upl.empty⟩ (sinv_empty mem) uidx_empty
  rw [← hrun] at hu
  rw [index_is_pending _ hu b bu hb k id]
  exact hl b k id

/-! Non-vacuity: the history of C14L's example: only upload 3 (key "l") is in the index. -/
example : ((liveRun id ⟨(Mem.createBucket Mem.empty [98]).1, Upl.empty⟩ [] C14L.exOps).1.upl.buckets.find [98]).map (·.index) =
    some [([108], [3])] := by decide

end GFS.Props.C14X
