import GFS.Props.C14P
import GFS.Props.C13I
import GFS.Model.FrontMp
set_option linter.unusedSimpArgs false
set_option linter.unusedVariables false
/-
  C14: the index invariant `Good` that the paging theorem (Props/C14P) assumes is kept by every
  operation of the uploader model: keys ascending and non-empty, every key with at least one
  pending upload id, no id twice, every id at most the counter.
-/
namespace GFS.Props.C14I
open GFS GFS.Model GFS.Model.Upl GFS.Props.C14P
open GFS.Props.C13I (find_mem_key)

def IB (N : Nat) (bu : BUps) : Prop :=
  SMap.Sorted bu.index ∧ ∀ q ∈ bu.index, q.2 ≠ [] ∧ q.2.Nodup ∧ (∀ i ∈ q.2, i ≤ N) ∧ q.1 ≠ []

def UInv (u : Upl) : Prop := ∀ q ∈ u.buckets, IB u.nextId q.2

theorem IB_mono {N N' : Nat} (h : N ≤ N') {bu : BUps} (hb : IB N bu) : IB N' bu :=
  ⟨hb.1, fun q hq => ⟨(hb.2 q hq).1, (hb.2 q hq).2.1, fun i hi => Nat.le_trans ((hb.2 q hq).2.2.1 i hi) h, (hb.2 q hq).2.2.2⟩⟩

theorem IB_good {N : Nat} {bu : BUps} (h : IB N bu) : Good bu.index :=
  ⟨h.1, fun q hq => ⟨(h.2 q hq).1, (h.2 q hq).2.1⟩, fun q hq => (h.2 q hq).2.2.2⟩

theorem add_inv (N : Nat) (bu : BUps) (m : MPU) (h : IB N bu) (hid : N < m.id) (hk : m.key ≠ []) : IB m.id (bu.add m) := by
  unfold BUps.add
  refine ⟨SMap.sorted_insert _ _ _ h.1, ?_⟩
  intro q hq
  rcases SMapL.mem_insert _ _ _ q hq with rfl | hq
  · simp only
    cases hf : SMap.find bu.index m.key with
    | none => simp [hk]
    | some ids =>
      obtain ⟨_, h2, h3, _⟩ := h.2 (m.key, ids) (find_mem_key _ _ _ hf)
      simp only [Option.getD_some]
      refine ⟨by simp, ?_, ?_, hk⟩
      · rw [List.nodup_append]
        refine ⟨h2, by simp, ?_⟩
        intro a ha b hb hab
        simp at hb
        have := h3 a ha; omega
      · intro i hi
        rcases List.mem_append.mp hi with hi | hi
        · have := h3 i hi; omega
        · simp at hi; omega
  · obtain ⟨a, b, c, d⟩ := h.2 q hq
    exact ⟨a, b, fun i hi => by have := c i hi; omega, d⟩

theorem remove_inv (N : Nat) (bu : BUps) (m : MPU) (h : IB N bu) : IB N (bu.remove m) := by
  unfold BUps.remove
  simp only
  split
  · exact ⟨SMap.sorted_erase _ _ h.1, fun q hq => h.2 q (SMapL.mem_erase _ _ q hq)⟩
  · rename_i hne
    refine ⟨SMap.sorted_insert _ _ _ h.1, ?_⟩
    intro q hq
    rcases SMapL.mem_insert _ _ _ q hq with rfl | hq
    · cases hf : SMap.find bu.index m.key with
      | none => simp [hf] at hne
      | some ids =>
        obtain ⟨_, h2, h3, h4⟩ := h.2 (m.key, ids) (find_mem_key _ _ _ hf)
        simp only [hf, Option.getD_some] at hne ⊢
        refine ⟨?_, h2.filter _, fun i hi => h3 i (List.mem_filter.mp hi).1, h4⟩
        intro he; rw [he] at hne; simp at hne
    · exact h.2 q hq

theorem set_inv (N : Nat) (bu : BUps) (m : MPU) (h : IB N bu) : IB N (bu.set m) := h

theorem insert_inv (u : Upl) (b : Bytes) (bu : BUps) (N : Nat) (hu : UInv u) (hN : u.nextId ≤ N) (hb : IB N bu) :
    UInv { buckets := SMap.insert u.buckets b bu, nextId := N } := by
  intro q hq
  rcases SMapL.mem_insert _ _ _ q hq with rfl | hq
  · exact hb
  · exact IB_mono hN (hu q hq)

theorem get_bucket (u : Upl) (b : Bytes) (k : Key) (id : Nat) (bu : BUps) (m : MPU) (h : u.get b k id = .ok (bu, m)) :
    SMap.find u.buckets b = some bu := by
  unfold Upl.get at h
  cases hf : SMap.find u.buckets b with
  | none => simp [hf] at h
  | some bu' =>
    simp only [hf] at h
    cases hfi : bu'.find id with
    | none => simp [hfi] at h
    | some m' =>
      simp only [hfi] at h
      split at h
      · injection h with h1; injection h1 with h2 h3; rw [h2]
      · simp at h

theorem create_inv (u : Upl) (b : Bytes) (k : Key) (md : Meta) (h : UInv u) (hk : k ≠ []) : UInv (u.create b k md).1 := by
  unfold Upl.create
  simp only
  refine insert_inv u b _ (u.nextId + 1) h (by omega) ?_
  cases hf : SMap.find u.buckets b with
  | none =>
    simp only [Option.getD_none]
    exact add_inv u.nextId ⟨[], []⟩ ⟨u.nextId + 1, b, k, md, []⟩ ⟨SMap.sorted_nil, by simp⟩ (by simp) hk
  | some bu =>
    simp only [Option.getD_some]
    exact add_inv u.nextId bu ⟨u.nextId + 1, b, k, md, []⟩ (h (b, bu) (find_mem_key _ _ _ hf)) (by simp) hk

theorem uploadPart_inv (md5 : Bytes → Bytes) (u : Upl) (b : Bytes) (k : Key) (id n : Nat) (declared : Int) (body : Bytes) (h : UInv u) :
    UInv (uploadPart md5 u b k id n declared body).1 := by
  unfold uploadPart
  split
  · exact h
  · split
    · exact h
    · cases hg : u.get b k id with
      | err c => exact h
      | panic s => exact h
      | ok r =>
        obtain ⟨bu, m⟩ := r
        simp only
        have hb := get_bucket u b k id bu m hg
        exact insert_inv u b _ u.nextId h (Nat.le_refl _) (h (b, bu) (find_mem_key _ _ _ hb))

theorem abort_inv (u : Upl) (b : Bytes) (k : Key) (id : Nat) (h : UInv u) : UInv (u.abort b k id).1 := by
  unfold Upl.abort
  cases hg : u.get b k id with
  | err c => exact h
  | panic s => exact h
  | ok r =>
    obtain ⟨bu, m⟩ := r
    simp only
    have hb := get_bucket u b k id bu m hg
    exact insert_inv u b _ u.nextId h (Nat.le_refl _) (remove_inv _ bu m (h (b, bu) (find_mem_key _ _ _ hb)))

theorem complete_inv (md5 : Bytes → Bytes) (u : Upl) (mem : Mem) (b : Bytes) (k : Key) (id : Nat) (listed : List (Int × Bytes)) (h : UInv u) :
    UInv (u.complete md5 mem b k id listed).1 := by
  unfold Upl.complete
  cases hg : u.get b k id with
  | err c => exact h
  | panic s => exact h
  | ok r =>
    obtain ⟨bu, m⟩ := r
    simp only
    have hb := get_bucket u b k id bu m hg
    cases validate m listed with
    | err c => exact h
    | panic s => exact h
    | ok ps =>
      simp only
      split
      · exact insert_inv u b _ u.nextId h (Nat.le_refl _) (remove_inv _ bu m (h (b, bu) (find_mem_key _ _ _ hb)))
      · exact h
      · exact h

/-- the operations on the server state that touch the multipart bookkeeping (and any change of the store) -/
inductive Op where
  | initiate (b : Bytes) (k : Key) (md : Meta)
  | part (b : Bytes) (k : Key) (id n : Nat) (declared : Int) (body : Bytes)
  | abort (b : Bytes) (k : Key) (id : Nat)
  | complete (b : Bytes) (k : Key) (id : Nat) (listed : List (Int × Bytes))
  | store (m : Mem)

def step (md5 : Bytes → Bytes) (s : Srv) : Op → Srv
  | .initiate b k md => ⟨s.mem, (s.upl.create b k md).1⟩
  | .part b k id n d body => ⟨s.mem, (uploadPart md5 s.upl b k id n d body).1⟩
  | .abort b k id => ⟨s.mem, (s.upl.abort b k id).1⟩
  | .complete b k id listed => ⟨(s.upl.complete md5 s.mem b k id listed).2.1, (s.upl.complete md5 s.mem b k id listed).1⟩
  | .store m => ⟨m, s.upl⟩

def OpKeysNE : Op → Prop
  | .initiate _ k _ => k ≠ []
  | _ => True

theorem step_inv (md5 : Bytes → Bytes) (s : Srv) (op : Op) (hop : OpKeysNE op) (h : UInv s.upl) : UInv (step md5 s op).upl := by
  cases op with
  | initiate b k md => exact create_inv s.upl b k md h hop
  | part b k id n d body => exact uploadPart_inv md5 s.upl b k id n d body h
  | abort b k id => exact abort_inv s.upl b k id h
  | complete b k id listed => exact complete_inv md5 s.upl s.mem b k id listed h
  | store m => exact h

theorem run_inv (md5 : Bytes → Bytes) (ops : List Op) (hops : ∀ op ∈ ops, OpKeysNE op) :
    ∀ s, UInv s.upl → UInv (ops.foldl (step md5) s).upl := by
  induction ops with
  | nil => intro s h; exact h
  | cons op ops ih =>
    intro s h
    exact ih (fun o ho => hops o (by simp [ho])) _ (step_inv md5 s op (hops op (by simp)) h)

/-- **reachable_uploads_walk_exact**: in every server state reached from the empty one by
    initiating, uploading parts, aborting and completing uploads (with any changes of the store in
    between), for every bucket with multipart bookkeeping, every prefix and delimiter and every page
    size `L ≥ 1`: following the returned (NextKeyMarker, NextUploadIdMarker) visits exactly the
    uploads of the unpaginated listing, none skipped or repeated. -/
theorem reachable_uploads_walk_exact (md5 : Bytes → Bytes) (ops : List Op) (hops : ∀ op ∈ ops, OpKeysNE op)
    (b : Bytes) (bu : BUps) (hb : SMap.find (ops.foldl (step md5) ⟨Mem.empty, Upl.empty⟩).upl.buckets b = some bu)
    (p : Prefix) (L : Int) (hL : 1 ≤ L) :
    let u := (ops.foldl (step md5) ⟨Mem.empty, Upl.empty⟩).upl
    let pages := walk u b p L ((bu.index.flatMap (C14U.uploadsOfKey p)).length + 1) [] none
    pages.flatMap (·.uploads) = bu.index.flatMap (C14U.uploadsOfKey p) ∧
    pages.getLast?.map (·.truncated) = some false ∧
    ∀ r ∈ pages, (r.uploads.length : Int) ≤ L := by
  have hi := run_inv md5 ops hops ⟨Mem.empty, Upl.empty⟩ (by intro q hq; simp [Upl.empty] at hq)
  exact uploads_walk_exact _ b bu hb p L hL (IB_good (hi (b, bu) (find_mem_key _ _ _ hb)))

end GFS.Props.C14I
