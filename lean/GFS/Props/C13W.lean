import GFS.Props.C13L
import GFS.Lemmas.Order
set_option linter.unusedSimpArgs false
set_option linter.unusedVariables false
/-
  C13, paging: following the NextKeyMarker / NextVersionIdMarker a truncated page returns visits
  every version and delete marker of the unpaginated listing exactly once, for every page size.

  Shape of the proof: the entries of a listing are a flat list `F`; one page without markers takes
  the first `c` of them and stops at a place `cut` describes as "what is left" (an object list whose
  first object has lost its first versions) — `page`, `F_cut`; the markers the page returns name
  that place, and a request carrying them runs the marker-free loop on what is left — `resume`
  (this is where the store's invariant is used: keys ascending, archived ids ascending and below
  the current one); induction on the number of entries left — `walk_from`.
-/
namespace GFS.Props.C13W
open GFS GFS.Model GFS.Props.C13 GFS.Props.C13L

/-- the inner loop with room for `c ≥ 1` more entries -/
theorem inner_page (k : Key) (masked : Bool) (L : Int) (vs : List (Ver × Bool)) (cnt : Int) (c : Nat)
    (hc : (c : Int) = L - cnt) (hc1 : 1 ≤ c) (hcnt : 0 ≤ cnt) (acc : List VerEntry) :
    verLoopInner k masked L vs cnt acc =
      if vs.length < c then (acc ++ vs.map (entryOf k masked), cnt + vs.length, none)
      else (acc ++ (vs.take c).map (entryOf k masked), cnt + c, some ((vs.drop c).head?.map (·.1.id))) := by
  induction vs generalizing cnt c acc with
  | nil =>
    have : (0 : Nat) < c := by omega
    simp [verLoopInner, this]
  | cons q rest ih =>
    obtain ⟨v, isCur⟩ := q
    unfold verLoopInner
    by_cases h1 : c = 1
    · subst h1
      have : L > 0 ∧ cnt + 1 ≥ L := by omega
      simp [this, entryOf]
    · have : ¬ (L > 0 ∧ cnt + 1 ≥ L) := by omega
      simp only [this, if_false]
      rw [ih (cnt + 1) (c - 1) (by omega) (by omega) (by omega)]
      by_cases h2 : rest.length < c - 1
      · have h3 : ((v, isCur) :: rest).length < c := by simp; omega
        simp only [h2, h3, if_true, List.map_cons, entryOf, List.append_assoc, List.singleton_append]
        simp only [List.length_cons, Prod.mk.injEq, and_true, true_and]
        push_cast; omega
      · have h3 : ¬ (((v, isCur) :: rest).length < c) := by simp; omega
        simp only [h2, h3, if_false]
        obtain ⟨c', rfl⟩ : ∃ c', c = c' + 1 := ⟨c - 1, by omega⟩
        simp only [List.take_succ_cons, List.drop_succ_cons, List.map_cons, entryOf, List.append_assoc, List.singleton_append, Nat.add_sub_cancel]
        simp; omega

/-- the flat list of entries of an object list -/
def F (p : Prefix) (masked : Bool) (objs : List (Key × Obj)) : List VerEntry := objs.flatMap (entriesOfKey p masked)

/-- an object without the first `n` versions its iterator yields -/
def trimN (o : Obj) (n : Nat) : Obj := { data := o.data, versions := o.versions.drop n }

theorem allVersions_trimN (o : Obj) (n : Nat) (h : n ≤ o.versions.length) :
    (trimN o n).allVersions = o.allVersions.drop n := by
  unfold trimN Obj.allVersions
  simp only
  rw [List.drop_append_of_le_length (by simpa using h)]
  simp [List.map_drop]

/-- the object list from the first key that matches the prefix and has a version -/
def skipToMatching (p : Prefix) : List (Key × Obj) → List (Key × Obj)
  | [] => []
  | (k, o) :: rest =>
    match p.match_ k with
    | none => skipToMatching p rest
    | some _ =>
      match o.allVersions.head? with
      | some _ => (k, o) :: rest
      | none => skipToMatching p rest

theorem nextMatching_eq (p : Prefix) (l : List (Key × Obj)) :
    nextMatching p l = (match skipToMatching p l with
      | [] => none
      | (k, o) :: _ => o.allVersions.head?.map fun v => (k, v.1.id)) := by
  induction l with
  | nil => simp [nextMatching, skipToMatching]
  | cons q rest ih =>
    obtain ⟨k, o⟩ := q
    unfold nextMatching skipToMatching
    cases p.match_ k with
    | none => simpa using ih
    | some r =>
      simp only
      cases h : o.allVersions.head? with
      | none => simpa using ih
      | some v => simp [h]

theorem skip_head (p : Prefix) (l : List (Key × Obj)) (k' : Key) (o' : Obj) (t : List (Key × Obj))
    (h : skipToMatching p l = (k', o') :: t) :
    ∃ x, o'.allVersions.head? = some x ∧ (p.match_ k').isSome ∧ ∃ pre, l = pre ++ (k', o') :: t := by
  induction l with
  | nil => simp [skipToMatching] at h
  | cons q rest ih =>
    obtain ⟨k, o⟩ := q
    unfold skipToMatching at h
    cases hm : p.match_ k with
    | none =>
      simp only [hm] at h
      obtain ⟨x, h1, h2, pre, h3⟩ := ih h
      exact ⟨x, h1, h2, (k, o) :: pre, by simp [h3]⟩
    | some r =>
      simp only [hm] at h
      cases hh : o.allVersions.head? with
      | none =>
        simp only [hh] at h
        obtain ⟨x, h1, h2, pre, h3⟩ := ih h
        exact ⟨x, h1, h2, (k, o) :: pre, by simp [h3]⟩
      | some x =>
        simp only [hh] at h
        injection h with h1 h2
        injection h1 with h3 h4
        subst h3 h4 h2
        exact ⟨x, hh, by simp [hm], [], rfl⟩

/-- what is left to list after `c ≥ 1` more entries (`[]` = nothing that would show) -/
def cut (p : Prefix) : Nat → List (Key × Obj) → List (Key × Obj)
  | _, [] => []
  | c, (k, o) :: rest =>
    match p.match_ k with
    | some (false, _) =>
      if c < o.allVersions.length then (k, trimN o c) :: rest
      else if c = o.allVersions.length then skipToMatching p rest
      else cut p (c - o.allVersions.length) rest
    | _ => cut p c rest

theorem F_cons_nomatch (p : Prefix) (masked : Bool) (k : Key) (o : Obj) (rest : List (Key × Obj))
    (h : ∀ mp, p.match_ k ≠ some (false, mp)) : F p masked ((k, o) :: rest) = F p masked rest := by
  unfold F
  simp only [List.flatMap_cons, entriesOfKey]
  cases hm : p.match_ k with
  | none => simp
  | some r =>
    obtain ⟨cp, mp⟩ := r
    cases cp with
    | true => simp
    | false => exact absurd hm (h mp)

theorem F_cons_match (p : Prefix) (masked : Bool) (k : Key) (o : Obj) (rest : List (Key × Obj)) (mp : Bytes)
    (h : p.match_ k = some (false, mp)) :
    F p masked ((k, o) :: rest) = o.allVersions.map (entryOf k masked) ++ F p masked rest := by
  unfold F
  simp [List.flatMap_cons, entriesOfKey, h]

theorem F_skip (p : Prefix) (masked : Bool) (l : List (Key × Obj)) : F p masked (skipToMatching p l) = F p masked l := by
  induction l with
  | nil => simp [skipToMatching]
  | cons q rest ih =>
    obtain ⟨k, o⟩ := q
    unfold skipToMatching
    cases hm : p.match_ k with
    | none =>
      simp only
      rw [ih, F_cons_nomatch p masked k o rest (by simp [hm])]
    | some r =>
      simp only
      cases hh : o.allVersions.head? with
      | some v => rfl
      | none =>
        simp only
        rw [ih]
        have hnil : o.allVersions = [] := by simpa using hh
        obtain ⟨cp, mp⟩ := r
        cases cp with
        | true => rw [F_cons_nomatch p masked k o rest (by simp [hm])]
        | false => rw [F_cons_match p masked k o rest mp hm, hnil]; simp

/-- **what `cut` leaves is exactly the entries after the first `c`** -/
theorem F_cut (p : Prefix) (masked : Bool) (objs : List (Key × Obj)) :
    ∀ (c : Nat), 1 ≤ c → F p masked (cut p c objs) = (F p masked objs).drop c := by
  induction objs with
  | nil => intro c _; simp [cut, F]
  | cons q rest ih =>
    intro c hc
    obtain ⟨k, o⟩ := q
    unfold cut
    cases hm : p.match_ k with
    | none => simp only; rw [ih c hc, F_cons_nomatch p masked k o rest (by simp [hm])]
    | some r =>
      obtain ⟨cp, mp⟩ := r
      cases cp with
      | true => simp only; rw [ih c hc, F_cons_nomatch p masked k o rest (by simp [hm])]
      | false =>
        simp only
        rw [F_cons_match p masked k o rest mp hm]
        by_cases h1 : c < o.allVersions.length
        · simp only [h1, if_true]
          rw [F_cons_match p masked k (trimN o c) rest mp hm]
          have hle : c ≤ o.versions.length := by
            unfold Obj.allVersions at h1
            cases hd : o.data <;> simp [hd] at h1 <;> omega
          rw [allVersions_trimN o c hle, List.drop_append_of_le_length (by simp; omega), List.map_drop]
        · simp only [h1, if_false]
          by_cases h2 : c = o.allVersions.length
          · simp only [h2, if_true]
            rw [F_skip]
            simp [List.drop_append]
          · simp only [h2, if_false]
            rw [ih (c - o.allVersions.length) (by omega)]
            rw [List.drop_append]
            have : List.drop c (List.map (entryOf k masked) o.allVersions) = [] := by
              apply List.drop_eq_nil_of_le; simp; omega
            simp [this]


/-- what a page reports about its end, given what `cut` leaves -/
def EndsAs (r acc : VersionList) (left : List (Key × Obj)) : Prop :=
  match left with
  | [] => r.truncated = acc.truncated ∧ r.nextKey = acc.nextKey ∧ r.nextVer = acc.nextVer
  | (k', o') :: _ => r.truncated = true ∧ r.nextKey = k' ∧ r.nextVer = o'.allVersions.head?.map (·.1.id)

theorem EndsAs_congr {r acc acc' : VersionList} {left : List (Key × Obj)}
    (h1 : acc'.truncated = acc.truncated) (h2 : acc'.nextKey = acc.nextKey) (h3 : acc'.nextVer = acc.nextVer)
    (h : EndsAs r acc' left) : EndsAs r acc left := by
  cases left with
  | nil => simpa [EndsAs, h1, h2, h3] using h
  | cons q _ => obtain ⟨k', o'⟩ := q; simpa [EndsAs] using h

/-- **one page without markers**: with room for `c ≥ 1` more entries the loop returns the next
    `c` entries of the flat listing and ends as `cut` says -/
theorem page (p : Prefix) (masked : Bool) (L : Int) (objs : List (Key × Obj)) :
    ∀ (cnt : Int) (c : Nat), (c : Int) = L - cnt → 1 ≤ c → 0 ≤ cnt → ∀ (acc : VersionList),
    ∃ r, verLoop p masked L [] none objs cnt acc = .ok r ∧
      r.entries = acc.entries ++ (F p masked objs).take c ∧ EndsAs r acc (cut p c objs) := by
  induction objs with
  | nil => intro cnt c hc hc1 hcnt acc; exact ⟨acc, by simp [verLoop], by simp [F], by simp [cut, EndsAs]⟩
  | cons q rest ih =>
    intro cnt c hc hc1 hcnt acc
    obtain ⟨k, o⟩ := q
    unfold verLoop cut
    cases hm : p.match_ k with
    | none =>
      simp only
      rw [F_cons_nomatch p masked k o rest (by simp [hm])]
      exact ih cnt c hc hc1 hcnt acc
    | some r0 =>
      obtain ⟨cp, mp⟩ := r0
      cases cp with
      | true =>
        simp only
        rw [F_cons_nomatch p masked k o rest (by simp [hm])]
        obtain ⟨r, h1, h2, h3⟩ := ih cnt c hc hc1 hcnt
          (if acc.prefixes.contains mp then acc else { acc with prefixes := acc.prefixes ++ [mp] })
        refine ⟨r, h1, ?_, ?_⟩
        · rw [h2]; split <;> rfl
        · refine EndsAs_congr ?_ ?_ ?_ h3 <;> (split <;> rfl)
      | false =>
        simp only
        rw [F_cons_match p masked k o rest mp hm, inner_page k masked L o.allVersions cnt c hc hc1 hcnt]
        by_cases h1 : o.allVersions.length < c
        · -- the key is listed whole and the loop goes on
          have h1' : ¬ c < o.allVersions.length := by omega
          have h1'' : ¬ c = o.allVersions.length := by omega
          simp only [h1, h1', h1'', if_true, if_false]
          obtain ⟨r, e1, e2, e3⟩ := ih (cnt + o.allVersions.length) (c - o.allVersions.length) (by omega) (by omega) (by omega)
            { acc with entries := acc.entries ++ o.allVersions.map (entryOf k masked) }
          refine ⟨r, e1, ?_, ?_⟩
          · rw [e2]
            simp only [List.append_assoc]
            have ht : List.take c (List.map (entryOf k masked) o.allVersions) = List.map (entryOf k masked) o.allVersions :=
              List.take_of_length_le (by simp; omega)
            rw [List.take_append, ht]
            simp
          · exact EndsAs_congr rfl rfl rfl e3
        · simp only [h1, if_false]
          by_cases h2 : c < o.allVersions.length
          · -- the page ends inside the key
            simp only [h2, if_true]
            have hle : c ≤ o.versions.length := by
              unfold Obj.allVersions at h2
              cases hd : o.data <;> simp [hd] at h2 <;> omega
            obtain ⟨x, hx⟩ : ∃ x, (o.allVersions.drop c).head? = some x := by
              cases hh : o.allVersions.drop c with
              | nil => have := List.drop_eq_nil_iff.mp hh; omega
              | cons x _ => exact ⟨x, rfl⟩
            simp only [hx, Option.map_some]
            refine ⟨_, rfl, ?_, ?_⟩
            · simp only
              rw [List.take_append_of_le_length (by simp; omega), List.map_take]
            · unfold EndsAs
              simp only [allVersions_trimN o c hle, hx, Option.map_some, and_self]
          · -- the page ends with the key's last version
            have h3 : c = o.allVersions.length := by omega
            simp only [h2, h3, if_true, if_false, List.drop_length, List.head?_nil, Option.map_none, Nat.lt_irrefl]
            rw [nextMatching_eq]
            have htake : List.take o.allVersions.length (List.map (entryOf k masked) o.allVersions ++ F p masked rest)
                = List.map (entryOf k masked) o.allVersions := by
              rw [List.take_append_of_le_length (by simp)]
              rw [List.take_of_length_le (by simp)]
            cases hs : skipToMatching p rest with
            | nil =>
              simp only
              refine ⟨_, rfl, ?_, ?_⟩
              · simp [htake, List.take_length]
              · simp [EndsAs]
            | cons q' _ =>
              obtain ⟨k', o'⟩ := q'
              simp only
              obtain ⟨x, hx, _⟩ := skip_head p rest k' o' _ hs
              simp only [hx, Option.map_some]
              refine ⟨_, rfl, ?_, ?_⟩
              · simp [htake, List.take_length]
              · simp [EndsAs, hx]


/-! ### Markers name the place where `cut` stopped -/

/-- the object invariant the store keeps: a current version, archived ids strictly ascending and
    all below the current one -/
def ObjOK (o : Obj) : Prop :=
  ∃ d, o.data = some d ∧ o.versions.Pairwise (fun a b => a.id < b.id) ∧ ∀ v ∈ o.versions, v.id < d.id

def Good (O : List (Key × Obj)) : Prop :=
  SMap.Sorted O ∧ (∀ q ∈ O, ObjOK q.2) ∧ ∀ q ∈ O, q.1 ≠ []

/-- `S` is what remains of `O` from some key on; its first object may have lost leading versions -/
def Suf (O S : List (Key × Obj)) : Prop :=
  match S with
  | [] => True
  | (k, o') :: rest => ∃ pre o0 dr, O = pre ++ (k, o0) :: rest ∧ o'.data = o0.data ∧ o0.versions = dr ++ o'.versions

theorem suf_of_plain (O pre S : List (Key × Obj)) (h : O = pre ++ S) : Suf O S := by
  cases S with
  | nil => trivial
  | cons q rest => obtain ⟨k, o⟩ := q; exact ⟨pre, o, [], h, rfl, by simp⟩

theorem suf_tail (O : List (Key × Obj)) (k : Key) (o' : Obj) (rest : List (Key × Obj)) (h : Suf O ((k, o') :: rest)) :
    Suf O rest := by
  obtain ⟨pre, o0, dr, h1, _, _⟩ := h
  exact suf_of_plain O (pre ++ [(k, o0)]) rest (by simp [h1])

theorem cut_suf (p : Prefix) (O : List (Key × Obj)) (S : List (Key × Obj)) :
    ∀ (c : Nat), Suf O S → Suf O (cut p c S) := by
  induction S with
  | nil => intro c _; simp [cut, Suf]
  | cons q rest ih =>
    intro c hS
    obtain ⟨k, o'⟩ := q
    have ht := suf_tail O k o' rest hS
    unfold cut
    cases hm : p.match_ k with
    | none => exact ih c ht
    | some r =>
      obtain ⟨cp, mp⟩ := r
      cases cp with
      | true => exact ih c ht
      | false =>
        simp only
        by_cases h1 : c < o'.allVersions.length
        · simp only [h1, if_true]
          obtain ⟨pre, o0, dr, e1, e2, e3⟩ := hS
          refine ⟨pre, o0, dr ++ o'.versions.take c, e1, e2, ?_⟩
          simp [trimN, e3, List.append_assoc, List.take_append_drop]
        · simp only [h1, if_false]
          by_cases h2 : c = o'.allVersions.length
          · simp only [h2, if_true]
            cases hs : skipToMatching p rest with
            | nil => trivial
            | cons q2 t =>
              obtain ⟨k2, o2⟩ := q2
              obtain ⟨_, _, _, pre2, e⟩ := skip_head p rest k2 o2 t hs
              obtain ⟨pre, o0, dr, e1, _, _⟩ := hS
              exact suf_of_plain O (pre ++ (k, o0) :: pre2) _ (by simp [e1, e])
          · simp only [h2, if_false]
            exact ih _ ht

theorem cut_head (p : Prefix) (S : List (Key × Obj)) :
    ∀ (c : Nat) (k' : Key) (o' : Obj) (t : List (Key × Obj)), cut p c S = (k', o') :: t →
      ∃ x, o'.allVersions.head? = some x ∧ (p.match_ k').isSome := by
  induction S with
  | nil => intro c k' o' t h; simp [cut] at h
  | cons q rest ih =>
    intro c k' o' t h
    obtain ⟨k, o⟩ := q
    unfold cut at h
    cases hm : p.match_ k with
    | none => simp only [hm] at h; exact ih c k' o' t h
    | some r =>
      obtain ⟨cp, mp⟩ := r
      cases cp with
      | true => simp only [hm] at h; exact ih c k' o' t h
      | false =>
        simp only [hm] at h
        by_cases h1 : c < o.allVersions.length
        · simp only [h1, if_true] at h
          injection h with h2 h3
          injection h2 with h4 h5
          subst h4 h5
          have hle : c ≤ o.versions.length := by
            unfold Obj.allVersions at h1
            cases hd : o.data <;> simp [hd] at h1 <;> omega
          rw [allVersions_trimN o c hle]
          cases hh : o.allVersions.drop c with
          | nil => have := List.drop_eq_nil_iff.mp hh; omega
          | cons x _ => exact ⟨x, rfl, by simp [hm]⟩
        · simp only [h1, if_false] at h
          by_cases h2 : c = o.allVersions.length
          · simp only [h2, if_true] at h
            obtain ⟨x, hx, hm', _⟩ := skip_head p rest k' o' t h
            exact ⟨x, hx, hm'⟩
          · simp only [h2, if_false] at h
            exact ih _ k' o' t h

theorem cut_len (p : Prefix) (masked : Bool) (S : List (Key × Obj)) :
    ∀ (c : Nat), cut p c S ≠ [] → c ≤ (F p masked S).length := by
  induction S with
  | nil => intro c h; simp [cut] at h
  | cons q rest ih =>
    intro c h
    obtain ⟨k, o⟩ := q
    unfold cut at h
    cases hm : p.match_ k with
    | none =>
      simp only [hm] at h
      rw [F_cons_nomatch p masked k o rest (by simp [hm])]; exact ih c h
    | some r =>
      obtain ⟨cp, mp⟩ := r
      cases cp with
      | true =>
        simp only [hm] at h
        rw [F_cons_nomatch p masked k o rest (by simp [hm])]; exact ih c h
      | false =>
        simp only [hm] at h
        rw [F_cons_match p masked k o rest mp hm]
        simp only [List.length_append, List.length_map]
        by_cases h1 : c < o.allVersions.length
        · omega
        · by_cases h2 : c = o.allVersions.length
          · omega
          · simp only [h1, h2, if_false] at h
            have := ih _ h
            omega

/-- a version marker that does not name any key of the list changes nothing -/
theorem verLoop_foreign_marker (p : Prefix) (masked : Bool) (L : Int) (km : Bytes) (vm : Option Nat) (objs : List (Key × Obj))
    (h : ∀ q ∈ objs, q.1 ≠ km) :
    ∀ (cnt : Int) (acc : VersionList), verLoop p masked L km vm objs cnt acc = verLoop p masked L [] none objs cnt acc := by
  induction objs with
  | nil => intro cnt acc; simp [verLoop]
  | cons q rest ih =>
    intro cnt acc
    obtain ⟨k, o⟩ := q
    have hk : (k == km) = false := by simpa using h (k, o) (by simp)
    have ih' := ih (fun q hq => h q (by simp [hq]))
    unfold verLoop
    cases p.match_ k with
    | none => exact ih' cnt acc
    | some r =>
      obtain ⟨cp, mp⟩ := r
      cases cp with
      | true => exact ih' _ _
      | false =>
        cases vm with
        | none => simp only [ih']
        | some v => simp only [hk, Bool.false_eq_true, if_false, ih']

theorem versionsFrom_suffix (o0 o' : Obj) (dr : List Ver) (x : Ver × Bool) (hok : ObjOK o0)
    (hd : o'.data = o0.data) (hv : o0.versions = dr ++ o'.versions) (hx : o'.allVersions.head? = some x) :
    o0.versionsFrom x.1.id = some o'.allVersions := by
  obtain ⟨d, hd0, hpw, hlt⟩ := hok
  unfold Obj.versionsFrom
  cases hvs : o'.versions with
  | nil =>
    have hxd : x = (d, true) := by
      unfold Obj.allVersions at hx
      simp [hvs, hd, hd0] at hx
      exact hx.symm
    subst hxd
    have hall : ∀ a ∈ o0.versions, (decide (a.id < d.id)) = true := by
      intro a ha; simpa using hlt a ha
    have : o0.versions.dropWhile (fun v => decide (v.id < d.id)) = [] := by
      have := List.dropWhile_append_of_pos (l₂ := ([] : List Ver)) hall
      simpa using this
    simp only [this, hd0]
    simp [Obj.allVersions, hvs, hd, hd0]
  | cons v vs =>
    have hxv : x = (v, false) := by
      unfold Obj.allVersions at hx
      simp [hvs] at hx
      exact hx.symm
    subst hxv
    rw [hv, hvs]
    have hdr : ∀ a ∈ dr, (decide (a.id < v.id)) = true := by
      intro a ha
      rw [hv, hvs] at hpw
      have := (List.pairwise_append.mp hpw).2.2 a ha v (by simp)
      simpa using this
    rw [List.dropWhile_append_of_pos hdr]
    have hdw : List.dropWhile (fun a : Ver => decide (a.id < v.id)) (v :: vs) = v :: vs := by
      simp [List.dropWhile_cons]
    simp only [hdw]
    simp [Obj.allVersions, hvs, hd]


theorem filter_from_key (pre rest : List (Key × Obj)) (k : Key) (o0 : Obj)
    (hs : SMap.Sorted (pre ++ (k, o0) :: rest)) :
    (pre ++ (k, o0) :: rest).filter (fun q => !Bytes.lt q.1 k) = (k, o0) :: rest ∧ ∀ q ∈ rest, q.1 ≠ k := by
  unfold SMap.Sorted at hs
  obtain ⟨_, h2, h3⟩ := List.pairwise_append.mp hs
  have hrest : ∀ q ∈ rest, Bytes.lt k q.1 = true := by
    intro q hq
    exact (List.pairwise_cons.mp h2).1 q hq
  have hpre : ∀ q ∈ pre, Bytes.lt q.1 k = true := fun q hq => h3 q hq (k, o0) (by simp)
  constructor
  · rw [List.filter_append]
    have e1 : pre.filter (fun q => !Bytes.lt q.1 k) = [] := by
      rw [List.filter_eq_nil_iff]; intro q hq; simp [hpre q hq]
    have e2 : ((k, o0) :: rest).filter (fun q => !Bytes.lt q.1 k) = (k, o0) :: rest := by
      rw [List.filter_eq_self]
      intro q hq
      rcases List.mem_cons.mp hq with rfl | hq
      · simp [Bytes.lt_irrefl]
      · simp [Bytes.lt_asymm _ _ (hrest q hq)]
    rw [e1, e2]; rfl
  · intro q hq heq
    have := hrest q hq
    rw [heq, Bytes.lt_irrefl] at this
    exact absurd this (by simp)

/-- **resume**: a request carrying the markers a page returned continues exactly where `cut` stopped -/
theorem resume (p : Prefix) (masked : Bool) (L : Int) (O : List (Key × Obj)) (hG : Good O)
    (k' : Key) (o' : Obj) (rest' : List (Key × Obj)) (hS : Suf O ((k', o') :: rest'))
    (x : Ver × Bool) (hx : o'.allVersions.head? = some x) (acc : VersionList) :
    verLoop p masked L k' (some x.1.id) (O.filter (fun q => !Bytes.lt q.1 k')) 0 acc =
      verLoop p masked L [] none ((k', o') :: rest') 0 acc := by
  obtain ⟨pre, o0, dr, e1, e2, e3⟩ := hS
  obtain ⟨hsorted, hok, _⟩ := hG
  subst e1
  obtain ⟨hf, hne⟩ := filter_from_key pre rest' k' o0 hsorted
  rw [hf]
  have hforeign := verLoop_foreign_marker p masked L k' (some x.1.id) rest' hne
  have hvf := versionsFrom_suffix o0 o' dr x (hok (k', o0) (by simp)) e2 e3 hx
  unfold verLoop
  cases p.match_ k' with
  | none => exact hforeign _ _
  | some r =>
    obtain ⟨cp, mp⟩ := r
    cases cp with
    | true => exact hforeign _ _
    | false => simp only [beq_self_eq_true, if_true, hvf, hforeign]

/-- the pages of a walk along the returned markers -/
def walk (m : Mem) (b : Bytes) (p : Prefix) (L : Int) : Nat → Bytes → Option Nat → List VersionList
  | 0, _, _ => []
  | n + 1, km, vm =>
    match m.listVersions b p km vm L with
    | .ok r => if r.truncated then r :: walk m b p L n r.nextKey r.nextVer else [r]
    | _ => []

/-- the marker pair `(km, vm)` names the remaining work `S` -/
def Names (O S : List (Key × Obj)) (km : Bytes) (vm : Option Nat) : Prop :=
  (km = [] ∧ vm = none ∧ S = O) ∨
  ∃ k' o' rest' x, S = (k', o') :: rest' ∧ km = k' ∧ o'.allVersions.head? = some x ∧ vm = some x.1.id

theorem walk_from (m : Mem) (b : Bytes) (bk : Bucket) (hb : SMap.find m.buckets b = some bk) (p : Prefix)
    (L : Int) (hL : 1 ≤ L) (hG : Good bk.objects) :
    ∀ (fuel : Nat) (S : List (Key × Obj)) (km : Bytes) (vm : Option Nat),
      Suf bk.objects S → Names bk.objects S km vm → (km ≠ [] → (p.match_ km).isSome) →
      (F p (bk.versioning == .none) S).length < fuel →
      (walk m b p L fuel km vm).flatMap (·.entries) = F p (bk.versioning == .none) S ∧
      (walk m b p L fuel km vm).getLast?.map (·.truncated) = some false ∧
      ∀ r ∈ walk m b p L fuel km vm, (r.entries.length : Int) ≤ L := by
  intro fuel
  induction fuel with
  | zero => intro S km vm _ _ _ h; omega
  | succ n ih =>
    intro S km vm hS hN hM hlen
    -- the request is the marker-free loop over `S`
    have hreq : m.listVersions b p km vm L =
        verLoop p (bk.versioning == .none) L [] none S 0 ⟨[], [], false, [], none⟩ := by
      unfold Mem.listVersions
      simp only [hb]
      rcases hN with ⟨h1, h2, h3⟩ | ⟨k', o', rest', x, h1, h2, h3, h4⟩
      · subst h1 h2 h3; simp
      · subst h1 h4
        rw [h2] at hM ⊢
        have hk : k' ≠ [] := by
          obtain ⟨pre, o0, dr, e1, _, _⟩ := hS
          exact hG.2.2 (k', o0) (by rw [e1]; simp)
        have hke : k'.isEmpty = false := by cases k' <;> simp_all
        simp only [hke, Bool.false_eq_true, if_false]
        obtain ⟨mm, hmm⟩ := Option.isSome_iff_exists.mp (hM hk)
        simp only [hmm]
        exact resume p _ L bk.objects hG k' o' rest' hS x h3 _
    obtain ⟨r, hr, hent, hend⟩ := page p (bk.versioning == .none) L S 0 L.toNat (by omega) (by omega) (by omega) ⟨[], [], false, [], none⟩
    have hcut := F_cut p (bk.versioning == .none) S L.toNat (by omega)
    unfold walk
    rw [hreq, hr]
    simp only
    cases hc : cut p L.toNat S with
    | nil =>
      rw [hc] at hend hcut
      have htr : r.truncated = false := by simpa [EndsAs] using hend.1
      have hall : (F p (bk.versioning == .none) S).take L.toNat = F p (bk.versioning == .none) S := by
        have : (F p (bk.versioning == .none) S).drop L.toNat = [] := by simpa [F] using hcut.symm
        exact List.take_of_length_le (List.drop_eq_nil_iff.mp this)
      simp only [htr, Bool.false_eq_true, if_false, List.flatMap_cons, List.flatMap_nil, List.append_nil]
      refine ⟨by rw [hent, hall]; simp, by simp [htr], ?_⟩
      intro r' hr'
      simp only [List.mem_singleton] at hr'
      subst hr'
      rw [hent]; simp only [List.nil_append, List.length_take]; omega
    | cons q t =>
      obtain ⟨k', o'⟩ := q
      rw [hc] at hend hcut
      obtain ⟨x, hx, hmk⟩ := cut_head p S L.toNat k' o' t hc
      have hS' : Suf bk.objects ((k', o') :: t) := hc ▸ cut_suf p bk.objects S L.toNat hS
      have hlen' := cut_len p (bk.versioning == .none) S L.toNat (by rw [hc]; simp)
      obtain ⟨ht1, ht2, ht3⟩ : r.truncated = true ∧ r.nextKey = k' ∧ r.nextVer = some x.1.id := by
        simpa [EndsAs, hx] using hend
      simp only [ht1, if_true, ht2, ht3]
      have hlen2 : (F p (bk.versioning == .none) ((k', o') :: t)).length < n := by
        rw [hcut, List.length_drop]; omega
      obtain ⟨i1, i2, i3⟩ := ih ((k', o') :: t) k' (some x.1.id) hS' (Or.inr ⟨k', o', t, x, rfl, rfl, hx, rfl⟩) (fun _ => hmk) hlen2
      refine ⟨?_, ?_, ?_⟩
      · simp only [List.flatMap_cons, i1, hent, List.nil_append, hcut, List.take_append_drop]
      · cases hw : walk m b p L n k' (some x.1.id) with
        | nil => rw [hw] at i2; simp at i2
        | cons a l => rw [hw] at i2; rw [List.getLast?_cons_cons]; exact i2
      · intro r' hr'
        rcases List.mem_cons.mp hr' with rfl | hr'
        · rw [hent]; simp only [List.nil_append, List.length_take]; omega
        · exact i3 r' hr'


theorem suf_refl (O : List (Key × Obj)) : Suf O O := suf_of_plain O [] O rfl

/-- **versions_walk_exact**: for every store whose bucket satisfies the invariant, every prefix and
    delimiter and every page size `L ≥ 1`: the pages obtained by starting without markers and
    passing back the NextKeyMarker / NextVersionIdMarker of each truncated page
    (a) carry, concatenated, exactly the entries of the unpaginated listing
        (`listVersions_exact`: every version and delete marker of every listed key once, key by key),
    (b) end with a page that is not truncated, and (c) never exceed `L` entries. -/
theorem versions_walk_exact (m : Mem) (b : Bytes) (bk : Bucket) (hb : SMap.find m.buckets b = some bk) (p : Prefix)
    (L : Int) (hL : 1 ≤ L) (hG : Good bk.objects) :
    let pages := walk m b p L ((bk.objects.flatMap (entriesOfKey p (bk.versioning == .none))).length + 1) [] none
    pages.flatMap (·.entries) = bk.objects.flatMap (entriesOfKey p (bk.versioning == .none)) ∧
    pages.getLast?.map (·.truncated) = some false ∧
    ∀ r ∈ pages, (r.entries.length : Int) ≤ L := by
  exact walk_from m b bk hb p L hL hG _ bk.objects [] none (suf_refl _) (Or.inl ⟨rfl, rfl, rfl⟩) (fun h => absurd rfl h)
    (by unfold F; omega)

/-! Non-vacuity: two keys, the first with an archived version, a delete marker as its current
    version; pages of one entry. -/
def exBucket : Bucket := ⟨.enabled, [([97], ⟨some ⟨3, true, [], [], []⟩, [⟨1, false, [1], [9], []⟩]⟩),
                                      ([98], ⟨some ⟨2, false, [7], [8], []⟩, []⟩)]⟩
def exMem : Mem := ⟨[([120], exBucket)], 3⟩

example : Good exBucket.objects := by
  refine ⟨?_, ?_, ?_⟩
  · unfold SMap.Sorted exBucket; decide
  · intro q hq
    simp only [exBucket, List.mem_cons, List.mem_nil_iff, or_false] at hq
    rcases hq with rfl | rfl
    · exact ⟨_, rfl, by simp, by simp⟩
    · exact ⟨_, rfl, by simp, by simp⟩
  · intro q hq
    simp only [exBucket, List.mem_cons, List.mem_nil_iff, or_false] at hq
    rcases hq with rfl | rfl <;> simp

example : (walk exMem [120] ⟨false, [], false, 0⟩ 1 4 [] none).map (fun r => (r.entries.map (·.vid), r.truncated, r.nextKey, r.nextVer)) =
    [([some 1], true, [97], some 3), ([some 3], true, [98], some 2), ([some 2], false, [], none)] := by decide

end GFS.Props.C13W
