import GFS.Model.Prefix
import GFS.Spec.Listing
import GFS.Lemmas.BytesLemmas
set_option linter.unusedSimpArgs false
set_option linter.unusedVariables false
namespace GFS.Props.C03M
open GFS GFS.Model GFS.Bytes GFS.Spec.Listing

/-- the delimiter branch of `Prefix.Match` on already-trimmed strings -/
def matchD (d : UInt8) (key pfx : Bytes) : Option (Bool × Bytes) :=
  let keyParts := splitOn1 d key
  let preParts := splitOn1 d pfx
  if keyParts.length < preParts.length then none
  else if !partsMatch keyParts preParts then none
  else
    let out := join1 d (keyParts.take preParts.length) ++
      (if keyParts.length != preParts.length then [d] else [])
    some (out != key, out)

/-- the specification's answer in the shape `Match` reports it -/
def specD (d : UInt8) (key pfx : Bytes) : Option (Bool × Bytes) :=
  match entryOf pfx (some d) key with
  | none => none
  | some (.content k) => some (false, k)
  | some (.cprefix p) => some (true, p)

def consR (c : UInt8) : Option (Bool × Bytes) → Option (Bool × Bytes)
  | none => none
  | some (b, o) => some (b, c :: o)

theorem bne_cons (c : UInt8) (a b : Bytes) : (c :: a != c :: b) = (a != b) := by
  by_cases h : a = b
  · subst h; simp
  · have : ¬ (c :: a = c :: b) := by simpa using h
    simp [bne, h, this]

theorem splitOn1_cons_sep (d : UInt8) (cs : Bytes) : splitOn1 d (d :: cs) = [] :: splitOn1 d cs := by
  simp [splitOn1]

theorem splitOn1_cons_ne (d c : UInt8) (cs : Bytes) (h : (c == d) = false) :
    ∃ p ps, splitOn1 d cs = p :: ps ∧ splitOn1 d (c :: cs) = (c :: p) :: ps := by
  cases hs : splitOn1 d cs with
  | nil => exact absurd hs (splitOn1_ne_nil d cs)
  | cons p ps => exact ⟨p, ps, rfl, by simp [splitOn1, h, hs]⟩

theorem join1_take_cons (d : UInt8) (p : Bytes) (ps : List Bytes) (n : Nat) (hn : 0 < n) :
    join1 d ((p :: ps).take n) = p ++ (match ps.take (n - 1) with | [] => [] | q :: qs => d :: join1 d (q :: qs)) := by
  cases n with
  | zero => omega
  | succ m =>
    simp only [List.take_succ_cons, Nat.add_sub_cancel]
    cases h : ps.take m with
    | nil => simp [join1]
    | cons q qs => simp [join1]

/-- when key and prefix start with the same byte, both `Match` and the specification answer as
    for the tails, with that byte put back in front -/
theorem matchD_cons (d c : UInt8) (ks ps : Bytes) :
    matchD d (c :: ks) (c :: ps) = consR c (matchD d ks ps) := by
  by_cases hc : (c == d) = true
  · have : c = d := by simpa using hc
    subst this
    unfold matchD
    simp only [splitOn1_cons_sep, List.length_cons]
    obtain ⟨q, qs, hq⟩ := List.exists_cons_of_ne_nil (splitOn1_ne_nil c ps)
    obtain ⟨h, t, hk⟩ := List.exists_cons_of_ne_nil (splitOn1_ne_nil c ks)
    rw [hq, hk]
    simp only [List.length_cons, partsMatch, beq_self_eq_true, Bool.true_and, List.take_succ_cons, join1]
    by_cases hl : t.length < qs.length
    · have h1 : t.length + 1 + 1 < qs.length + 1 + 1 := by omega
      have h2 : t.length + 1 < qs.length + 1 := by omega
      simp [h1, h2, consR]
    · have h1 : ¬ t.length + 1 + 1 < qs.length + 1 + 1 := by omega
      have h2 : ¬ t.length + 1 < qs.length + 1 := by omega
      simp only [h1, h2, if_false]
      cases hpm : partsMatch (h :: t) (q :: qs) with
      | false => simp [consR]
      | true =>
        simp only [Bool.not_true, Bool.false_eq_true, if_false, consR, List.nil_append, List.cons_append]
        rw [bne_cons]
        have e : (t.length + 1 + 1 != qs.length + 1 + 1) = (t.length + 1 != qs.length + 1) := by
          by_cases hh : t.length = qs.length <;> simp [hh]
        simp only [e]
  · have hc' : (c == d) = false := by simpa using hc
    obtain ⟨q, qs, hq, hq'⟩ := splitOn1_cons_ne d c ps hc'
    obtain ⟨h, t, hk, hk'⟩ := splitOn1_cons_ne d c ks hc'
    unfold matchD
    rw [hq, hq', hk, hk']
    simp only [List.length_cons, List.take_succ_cons]
    have hpm : partsMatch ((c :: h) :: t) ((c :: q) :: qs) = partsMatch (h :: t) (q :: qs) := by
      cases qs with
      | nil => simp [partsMatch, hasPrefix]
      | cons r rs => simp [partsMatch]
    rw [hpm]
    by_cases hl : t.length + 1 < qs.length + 1
    · simp [hl, consR]
    · simp only [hl, if_false]
      cases hpm2 : partsMatch (h :: t) (q :: qs) with
      | false => simp [consR]
      | true =>
        simp only [Bool.not_true, Bool.false_eq_true, if_false, consR]
        have hj : ∀ l : List Bytes, join1 d ((c :: h) :: l) = c :: join1 d (h :: l) := by
          intro l; cases l <;> simp [join1]
        rw [hj]
        simp only [List.cons_append, bne_cons]

theorem specD_cons (d c : UInt8) (ks ps : Bytes) :
    specD d (c :: ks) (c :: ps) = consR c (specD d ks ps) := by
  unfold specD entryOf
  simp only [hasPrefix, beq_self_eq_true, Bool.true_and, List.length_cons, List.drop_succ_cons]
  by_cases hp : hasPrefix ks ps = true
  · simp only [hp, Bool.not_true, Bool.false_eq_true, if_false]
    cases indexOf d (ks.drop ps.length) <;> simp [consR]
  · have : hasPrefix ks ps = false := by simpa using hp
    simp [this, consR]

theorem indexOf_none_split (d : UInt8) (s : Bytes) (h : indexOf d s = none) : splitOn1 d s = [s] := by
  induction s with
  | nil => simp [splitOn1]
  | cons c cs ih =>
    unfold indexOf at h
    split at h
    · simp at h
    · rename_i hc
      have hcs : indexOf d cs = none := by simpa using h
      have hc' : (c == d) = false := by simpa using hc
      simp [splitOn1, hc', ih hcs]

theorem indexOf_some_split (d : UInt8) (s : Bytes) (i : Nat) (h : indexOf d s = some i) :
    ∃ t, t ≠ [] ∧ splitOn1 d s = s.take i :: t ∧ s.take (i + 1) = s.take i ++ [d] := by
  induction s generalizing i with
  | nil => simp [indexOf] at h
  | cons c cs ih =>
    unfold indexOf at h
    split at h
    · rename_i hc
      have : c = d := by simpa using hc
      subst this
      have : i = 0 := by simpa using h.symm
      subst this
      exact ⟨splitOn1 c cs, splitOn1_ne_nil c cs, by simp [splitOn1], by simp⟩
    · rename_i hc
      have hc' : (c == d) = false := by simpa using hc
      cases hi : indexOf d cs with
      | none => simp [hi] at h
      | some j =>
        simp only [hi, Option.map_some, Option.some.injEq] at h
        subst h
        obtain ⟨t, ht, hs, htk⟩ := ih j hi
        refine ⟨t, ht, ?_, ?_⟩
        · simp [splitOn1, hc', hs]
        · simp [List.take_succ_cons, htk]

theorem matchD_nil (d : UInt8) (key : Bytes) (hend : key.getLast? ≠ some d) :
    matchD d key [] = specD d key [] := by
  unfold matchD specD entryOf
  simp only [splitOn1, List.length_cons, List.length_nil, hasPrefix, Bool.not_true, Bool.false_eq_true,
    if_false, List.drop_zero, List.nil_append]
  cases hi : indexOf d key with
  | none =>
    rw [indexOf_none_split d key hi]
    simp [partsMatch, hasPrefix, join1]
  | some i =>
    obtain ⟨t, ht, hs, htk⟩ := indexOf_some_split d key i hi
    rw [hs]
    obtain ⟨t0, ts, rfl⟩ := List.exists_cons_of_ne_nil ht
    have hne : key.take i ++ [d] ≠ key := by
      intro he
      apply hend
      rw [← he]; simp
    simp [partsMatch, hasPrefix, join1, htk, hne]

theorem getLast_tail (d k : UInt8) (ks : Bytes) (h : (k :: ks).getLast? ≠ some d) : ks.getLast? ≠ some d := by
  cases ks with
  | nil => simp
  | cons x xs => simpa [List.getLast?_cons_cons] using h

/-- key and prefix start with different bytes: no match -/
theorem matchD_ne (d k c : UInt8) (ks ps : Bytes) (hkc : k ≠ c) : matchD d (k :: ks) (c :: ps) = none := by
  unfold matchD
  obtain ⟨h, t, hk⟩ := List.exists_cons_of_ne_nil (splitOn1_ne_nil d ks)
  obtain ⟨q, qs, hq⟩ := List.exists_cons_of_ne_nil (splitOn1_ne_nil d ps)
  have hkc' : (k == c) = false := by simpa using hkc
  by_cases hkd : (k == d) = true <;> by_cases hcd : (c == d) = true
  · have h1 : k = d := by simpa using hkd
    have h2 : c = d := by simpa using hcd
    exact absurd (h1.trans h2.symm) hkc
  · have hcd' : (c == d) = false := by simpa using hcd
    simp only [splitOn1, hkd, hcd', if_true, hk, hq]
    cases qs with
    | nil => simp [partsMatch, hasPrefix]
    | cons r rs => simp [partsMatch]
  · have hkd' : (k == d) = false := by simpa using hkd
    simp only [splitOn1, hkd', hcd, if_true, hk, hq]
    simp [partsMatch]
  · have hkd' : (k == d) = false := by simpa using hkd
    have hcd' : (c == d) = false := by simpa using hcd
    simp only [splitOn1, hkd', hcd', hk, hq]
    cases qs with
    | nil => simp [partsMatch, hasPrefix, hkc']
    | cons r rs => simp [partsMatch, hkc]

theorem matchD_key_nil (d c : UInt8) (ps : Bytes) : matchD d [] (c :: ps) = none := by
  unfold matchD
  obtain ⟨q, qs, hq⟩ := List.exists_cons_of_ne_nil (splitOn1_ne_nil d ps)
  by_cases hcd : (c == d) = true
  · simp [splitOn1, hcd, hq]
  · have hcd' : (c == d) = false := by simpa using hcd
    simp only [splitOn1, hcd', hq]
    cases qs with
    | nil => simp [partsMatch, hasPrefix]
    | cons r rs => simp

/-- **matchD_eq_specD**: on strings that do not end with the delimiter, the delimiter branch of
    `Prefix.Match` (split both on the delimiter, compare part by part, join the covered parts)
    is the specification (string prefix; common prefix = prefix + segment up to and including
    the first delimiter after it). -/
theorem matchD_eq_specD (d : UInt8) (pfx key : Bytes) (hend : key.getLast? ≠ some d) :
    matchD d key pfx = specD d key pfx := by
  induction pfx generalizing key with
  | nil => exact matchD_nil d key hend
  | cons c ps ih =>
    cases key with
    | nil => rw [matchD_key_nil]; simp [specD, entryOf, hasPrefix]
    | cons k ks =>
      by_cases hkc : k = c
      · subst hkc
        rw [matchD_cons, specD_cons, ih ks (getLast_tail d k ks hend)]
      · rw [matchD_ne d k c ks ps hkc]
        have : (k == c) = false := by simpa using hkc
        simp [specD, entryOf, hasPrefix, this]

theorem trimLeft1_id (d : UInt8) (s : Bytes) (h : s.head? ≠ some d) : trimLeft1 d s = s := by
  cases s with
  | nil => rfl
  | cons c cs =>
    have : (c == d) = false := by simpa using h
    simp [trimLeft1, this]

/-- **match_eq_entryOf** (C03, delimiter case): for every delimiter byte, every prefix that does
    not start with it and every key that neither starts nor ends with it — the domain the
    statement quantifies over — `Prefix.Match` reports exactly what the specification says: no
    match when the key does not start with the prefix; the key itself as Contents when no
    delimiter follows the prefix; otherwise the CommonPrefix `prefix + segment up to and including
    the first delimiter`. -/
theorem match_eq_entryOf (hasP : Bool) (d : UInt8) (pfx key : Bytes)
    (hp : pfx.head? ≠ some d) (hk : key.head? ≠ some d) (hend : key.getLast? ≠ some d) :
    (⟨hasP, pfx, true, d⟩ : Prefix).match_ key = specD d key pfx := by
  unfold Prefix.match_
  simp only [Bool.not_true, Bool.and_false, Bool.false_eq_true, if_false, trimLeft1_id d pfx hp, trimLeft1_id d key hk]
  exact matchD_eq_specD d pfx key hend

/-! Non-vacuity and the boundary of the domain: a key ending in the delimiter is reported as
    Contents by the code where the specification groups it (outside the quantifier of C03). -/
example : (⟨true, [97], true, 47⟩ : Prefix).match_ [97, 98, 47, 99] = some (true, [97, 98, 47]) := by decide
example : specD 47 [97, 98, 47, 99] [97] = some (true, [97, 98, 47]) := by decide
example : (⟨true, [97], true, 47⟩ : Prefix).match_ [97, 47] ≠ specD 47 [97, 47] [97] := by decide

end GFS.Props.C03M
