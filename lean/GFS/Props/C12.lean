import GFS.Spec.ChunkSpec
set_option linter.unusedSimpArgs false
/-
  C12 — aws-chunked uploads decode to the payload however they arrive.
-/
namespace GFS.Props.C12
open GFS GFS.Model.Chunk GFS.Spec.ChunkSpec

/-! ### the inner reader never returns 0 bytes from a non-empty stream, never more than asked -/

theorem readLen_le (cut : Nat → Bool) (a k : Nat) : readLen cut a k ≤ k ∧ readLen cut a k ≤ a := by
  induction a generalizing k with
  | zero => simp [readLen]
  | succ a ih =>
    cases k with
    | zero => simp [readLen]
    | succ k =>
      unfold readLen
      split
      · omega
      · have := ih k; omega

theorem readLen_pos (cut : Nat → Bool) (a k : Nat) (ha : 0 < a) (hk : 0 < k) : 0 < readLen cut a k := by
  cases a with
  | zero => omega
  | succ a =>
    cases k with
    | zero => omega
    | succ k => unfold readLen; split <;> omega

/-! ### the size field -/

theorem isHex_props (c : UInt8) (h : isHex c = true) :
    isScanSpace c = false ∧ ¬ (c ≥ 128) ∧ (c == 10) = false ∧ (c == 43) = false ∧ (c == 45) = false
      ∧ (c == 59) = false := by
  have := forall_u8 (fun c => !isHex c || (!isScanSpace c && !(decide (c ≥ 128)) && !(c == 10) && !(c == 43)
    && !(c == 45) && !(c == 59))) (by decide +kernel) c
  simp only [h, Bool.not_true, Bool.false_or, Bool.and_eq_true, Bool.not_eq_true', decide_eq_false_iff_not] at this
  obtain ⟨⟨⟨⟨⟨a, b⟩, c'⟩, d⟩, e⟩, f⟩ := this
  exact ⟨a, b, c', d, e, f⟩

theorem scanDigits_all (ds : Bytes) (h : ds.all isHex = true) (acc : Nat) (s : UInt8) (rest : Bytes)
    (hs : isHex s = false) :
    scanDigits (ds ++ s :: rest) acc = (ds.foldl (fun a c => a * 16 + hexDigitVal c) acc, s :: rest) := by
  induction ds generalizing acc with
  | nil => simp [scanDigits, hs]
  | cons d ds ih =>
    simp only [List.all_cons, Bool.and_eq_true] at h
    simp only [List.cons_append, scanDigits, h.1, if_true, List.foldl_cons]
    exact ih h.2 _

/-- **scan_wellformed_header**: a size field of one or more hex digits (either case, leading
    zeros allowed) whose value fits int64, followed by ';', is read as exactly that value and
    consumes exactly up to and including the ';'. -/
theorem scan_wellformed_header (ds rest : Bytes) (hne : ds ≠ []) (hall : ds.all isHex = true)
    (hv : hexValue ds ≤ 9223372036854775807) :
    scanHexSemi (ds ++ 59 :: rest) = .ok (hexValue ds) rest := by
  cases ds with
  | nil => exact absurd rfl hne
  | cons d ds' =>
    have hd : isHex d = true := by simp only [List.all_cons, Bool.and_eq_true] at hall; exact hall.1
    obtain ⟨p1, p2, p3, p4, p5, p6⟩ := isHex_props d hd
    have hsemi : isHex 59 = false := by decide
    have hsd := scanDigits_all (d :: ds') hall 0 59 rest hsemi
    unfold scanHexSemi
    simp only [List.cons_append, skipScanSpace, p1, Bool.false_eq_true, if_false]
    simp only [p2, p3, p4, p5, if_false, Bool.false_eq_true, hd, Bool.not_true]
    simp only [List.cons_append] at hsd
    rw [hsd]
    have hv' : List.foldl (fun a c => a * 16 + hexDigitVal c) 0 (d :: ds') ≤ 9223372036854775807 := hv
    simp only [hv', decide_true, Bool.not_true, Bool.false_eq_true, if_false]
    have : ¬ ((59 : UInt8) ≥ 128) := by decide
    simp [this, hexValue]

/-! Non-vacuity: "1f;" is such a header. -/
example : scanHexSemi ([49, 102] ++ 59 :: [7, 7]) = .ok 31 [7, 7] := by decide

end GFS.Props.C12
