import GFS.Generated.LockFacts
/-
  C07: the critical-section structure the schedule theorems assume, checked against the source.

  Props/C07S (schedule_linearizes) and the gate-controlled correspondence treat an upload as
  "read the body and merge the metadata WITHOUT the lock, then ONE atomic commit", every other
  request as one atomic step, and a part upload / complete as atomic under the uploader's locks.
  `GFS.Generated.lockTrace` is re-extracted from /repo on every run (harness/cmd/extract,
  go/ast): per method of the three backends and of the multipart uploader the lock operations,
  verif gates, accesses to the shared maps and the calls that matter, in source order, each as
  (kind, argument).  The theorems below are decided over that table; a change of the lock
  discipline in the Go code makes them fail (reported by ./check C07 as a broken obligation).
-/
namespace GFS.Props.C07Gen
open GFS.Generated

abbrev Ev := String × String

def traceOf (name : String) : List Ev := ((lockTrace.lookup name).map (·.2)).getD []

def isLock (e : Ev) : Bool := e.1 == "Lock" || e.1 == "RLock"
def isBareUnlock (e : Ev) : Bool := e.1 == "Unlock" || e.1 == "RUnlock"
def deferOf (e : Ev) : Ev := (if e.1 == "RLock" then "defer RUnlock" else "defer Unlock", e.2)

/-- a lock is taken and its release deferred in the next statement; nothing is unlocked by hand -/
def lockThenDefer : List Ev → Bool
  | [] => true
  | e :: rest =>
    if isBareUnlock e then false
    else if isLock e then rest.head? == some (deferOf e) && lockThenDefer rest
    else lockThenDefer rest

/-- events that read or change shared state -/
def touchesState (e : Ev) : Bool :=
  e.1 == "index" || (e.1 == "call" && ["put", "rm", "rmVersion", "setVersioning", "remove", "add", "getUnlocked",
    "deleteObjectLocked", "Create", "saveMeta", "loadMeta", "Remove", "removeEmptyDirsLocked", "object", "objectVersion",
    "Open"].contains e.2)

/-- no state is touched before the first lock operation of the method -/
def guarded : List Ev → Bool
  | [] => true
  | e :: rest => if isLock e then true else if touchesState e then false else guarded rest

/-- helpers whose callers hold the lock (their names say so) and the version-id helper -/
def helpers : List String :=
  ["gofakes3.uploader.getUnlocked", "s3mem.Backend.nextVersion",
   "s3aferoM.MultiBucketBackend.deleteObjectLocked", "s3aferoM.MultiBucketBackend.getBucketWithArbitraryPrefixLocked",
   "s3aferoM.MultiBucketBackend.getBucketWithFilePrefixLocked", "s3aferoM.MultiBucketBackend.removeEmptyDirsLocked",
   "s3aferoS.SingleBucketBackend.deleteObjectLocked", "s3aferoS.SingleBucketBackend.getBucketWithArbitraryPrefixLocked",
   "s3aferoS.SingleBucketBackend.getBucketWithFilePrefixLocked", "s3aferoS.SingleBucketBackend.removeEmptyDirsLocked",
   "s3aferoS.SingleBucketBackend.ensureMeta"]

/-- the types whose methods guard shared state with their own mutex (s3bolt keeps its state in bolt
    transactions; the methods of `multipartUpload` / `bucketUploads` are called with the locks held) -/
def lockedTypes : List String :=
  ["s3mem.Backend", "gofakes3.uploader", "s3aferoM.MultiBucketBackend", "s3aferoS.SingleBucketBackend"]

/-- **lock_discipline**: in every method of s3mem, s3afero (multi and single) and the uploader a
    lock that is taken is released by the `defer` that follows it and by nothing else — no method
    drops a lock in the middle and retakes it, none starts a goroutine — and no shared map, object
    file or metadata record is touched before the method's first lock operation. -/
theorem lock_discipline :
    lockTrace.all (fun r => lockThenDefer r.2.2 && !(r.2.2.any (·.1 == "go")) &&
      (!lockedTypes.contains r.2.1 || helpers.contains r.1 || guarded r.2.2)) = true := by decide

def takesLock (name : String) : Bool := (traceOf name).any isLock

/-- the exported methods of its own receiver a method calls after it has taken a lock -/
def selfcallsAfterLock : List Ev → List String
  | [] => []
  | e :: rest => if isLock e then (rest.filter (·.1 == "selfcall")).map (·.2) else selfcallsAfterLock rest

/-- **no_relock**: Go's mutexes are not reentrant — no method that holds its receiver's lock calls
    an exported method of the same receiver that takes the lock again (a failure path that does
    would wedge the whole server). -/
theorem no_relock : lockTrace.all (fun r => (selfcallsAfterLock r.2.2).all (fun n => !takesLock n)) = true := by decide

/-- **mem_put_sections**: s3mem PutObject is exactly the micro-step structure of the schedule
    model: body read (gate), metadata merge (gate) — both without the lock — then the write lock,
    held to the end, under which the bucket is looked up, the time read and the item stored. -/
theorem mem_put_sections : traceOf "s3mem.Backend.PutObject" =
    [("call", "ReadAll"), ("gate", "s3mem.PutObject.afterRead"), ("call", "MergeMetadata"), ("gate", "s3mem.PutObject.afterMerge"),
     ("Lock", "db.lock"), ("defer Unlock", "db.lock"), ("index", "db.buckets"), ("call", "Now"), ("call", "put")] := by decide

/-- the other writers of s3mem are one critical section each -/
theorem mem_writers_atomic :
    ["s3mem.Backend.DeleteObject", "s3mem.Backend.DeleteMulti", "s3mem.Backend.DeleteObjectVersion",
     "s3mem.Backend.DeleteMultiVersions", "s3mem.Backend.CreateBucket", "s3mem.Backend.DeleteBucket",
     "s3mem.Backend.ForceDeleteBucket", "s3mem.Backend.SetVersioningConfiguration"].all
      (fun n => (traceOf n).take 2 == [("Lock", "db.lock"), ("defer Unlock", "db.lock")]) = true := by decide

/-- the readers of s3mem take the read lock first and keep it -/
theorem mem_readers_atomic :
    ["s3mem.Backend.GetObject", "s3mem.Backend.HeadObject", "s3mem.Backend.ListBucket", "s3mem.Backend.ListBucketVersions",
     "s3mem.Backend.ListBuckets", "s3mem.Backend.BucketExists", "s3mem.Backend.VersioningConfiguration"].all
      (fun n => (traceOf n).take 2 == [("RLock", "db.lock"), ("defer RUnlock", "db.lock")]) = true := by decide

/-- **uploader_sections**: a part upload reads its body without a lock (gate), then holds the
    uploader's lock and the upload's lock to the end; a complete holds both across the backend's
    PutObject and the removal of the upload (nothing can slip in between "stored" and "gone");
    abort, initiate and the listings are one critical section each. -/
theorem uploader_sections :
    (traceOf "gofakes3.uploader.UploadPart").take 7 =
      [("call", "ReadAll"), ("gate", "uploader.UploadPart.afterRead"), ("Lock", "u.mu"), ("defer Unlock", "u.mu"),
       ("call", "getUnlocked"), ("Lock", "mpu.mu"), ("defer Unlock", "mpu.mu")] ∧
    (traceOf "gofakes3.uploader.CompleteMultipartUpload").take 5 =
      [("Lock", "u.mu"), ("defer Unlock", "u.mu"), ("call", "getUnlocked"), ("Lock", "mpu.mu"), ("defer Unlock", "mpu.mu")] ∧
    (traceOf "gofakes3.uploader.CompleteMultipartUpload").filter (fun e => e == ("call", "PutObject") || e == ("call", "remove")) =
      [("call", "PutObject"), ("call", "remove")] ∧
    ["gofakes3.uploader.AbortMultipartUpload", "gofakes3.uploader.CreateMultipartUpload",
     "gofakes3.uploader.ListMultipartUploads", "gofakes3.uploader.ListParts"].all
      (fun n => (traceOf n).take 2 == [("Lock", "u.mu"), ("defer Unlock", "u.mu")]) = true := by decide

/-- **fs_sections**: the file-system backends read and validate the body and merge the metadata
    before taking their lock, write under it, and a download reads its bytes under the lock. -/
theorem fs_sections :
    ["s3aferoM.MultiBucketBackend.PutObject", "s3aferoS.SingleBucketBackend.PutObject"].all
      (fun n => (traceOf n).take 5 ==
        [("call", "ReadAll"), ("call", "MergeMetadata"), ("gate", "s3afero.PutObject.afterMerge"), ("Lock", "db.lock"),
         ("defer Unlock", "db.lock")]) = true ∧
    ["s3aferoM.MultiBucketBackend.GetObject", "s3aferoS.SingleBucketBackend.GetObject"].all
      (fun n => (traceOf n).take 2 == [("Lock", "db.lock"), ("defer Unlock", "db.lock")] &&
        (traceOf n).contains ("call", "ReadAll")) = true := by decide

/-- **bolt_sections**: s3bolt reads the body and merges the metadata before it opens its write
    transaction (a stalled upload blocks no other writer) and every other method is one transaction. -/
theorem bolt_sections :
    traceOf "s3bolt.Backend.PutObject" =
      [("call", "ReadAll"), ("gate", "s3bolt.PutObject.afterRead"), ("call", "MergeMetadata"), ("gate", "s3bolt.PutObject.afterMerge"),
       ("call", "Now"), ("call", "Update"), ("closure", ""), ("call", "Put")] ∧
    ["s3bolt.Backend.DeleteObject", "s3bolt.Backend.DeleteMulti", "s3bolt.Backend.DeleteBucket", "s3bolt.Backend.CreateBucket",
     "s3bolt.Backend.ForceDeleteBucket"].all (fun n => ((traceOf n).filter (· == ("call", "Update"))).length == 1) = true ∧
    ["s3bolt.Backend.GetObject", "s3bolt.Backend.ListBucket", "s3bolt.Backend.ListBuckets", "s3bolt.Backend.BucketExists"].all
      (fun n => ((traceOf n).filter (· == ("call", "View"))).length == 1 && !(traceOf n).contains ("call", "Update")) = true := by
  decide

end GFS.Props.C07Gen
