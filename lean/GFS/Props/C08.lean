import GFS.Model.Upload
set_option linter.unusedSimpArgs false
set_option linter.unusedVariables false
/-
  C08 — corrupt or short uploads are rejected and never change stored state.
  Memory/bolt upload path (`ReadAll` before any state change), parametric in the digest.
-/
namespace GFS.Props.C08
open GFS GFS.Model

/-- **md5_accepted_iff**: when the stream ends normally with exactly the declared number of
    bytes, the body is accepted exactly when no digest was given or the given digest is the
    digest of the bytes received; otherwise the answer is BadDigest. -/
theorem md5_accepted_iff (md5 : Bytes → Bytes) (body : Bytes) (expected : Option Bytes) :
    readAllHashing md5 body.length body .eof expected =
      (match expected with
       | none => .ok body
       | some d => if d = md5 body then .ok body else .err .BadDigest) := by
  unfold readAllHashing digestOk
  have h1 : ¬ ((body.length : Int) < 0) := by omega
  cases expected with
  | none => simp [h1]
  | some d =>
    by_cases hd : d = md5 body
    · simp [h1, hd]
    · have : (d == md5 body) = false := by simpa using hd
      simp [h1, hd, this]

/-- **length_mismatch_refused**: a body shorter or longer than the declared length is never
    accepted, whatever the digest header says and however the stream ends. -/
theorem length_mismatch_refused (md5 : Bytes → Bytes) (size : Int) (body : Bytes) (tail : BodyEnd) (expected : Option Bytes)
    (h : (body.length : Int) ≠ size) : ∀ r, readAllHashing md5 size body tail expected ≠ .ok r := by
  intro r
  unfold readAllHashing
  by_cases hs : size < 0
  · simp [hs]
  · cases tail with
    | fail => simp [hs]
    | eof =>
      cases hd : digestOk md5 body expected
      · simp [hs, hd]
      · by_cases he : body.isEmpty <;> simp [hs, hd, h, he]

/-- a reader that fails is never accepted -/
theorem failing_reader_refused (md5 : Bytes → Bytes) (size : Int) (body : Bytes) (expected : Option Bytes) :
    ∀ r, readAllHashing md5 size body .fail expected ≠ .ok r := by
  intro r
  unfold readAllHashing
  by_cases hs : size < 0 <;> simp [hs]

/-- what is accepted is exactly the body that arrived, complete, with a matching digest -/
theorem accepted_is_body (md5 : Bytes → Bytes) (size : Int) (body : Bytes) (tail : BodyEnd) (expected : Option Bytes) (r : Bytes)
    (h : readAllHashing md5 size body tail expected = .ok r) :
    r = body ∧ (body.length : Int) = size ∧ tail = .eof ∧ (∀ d, expected = some d → d = md5 body) := by
  unfold readAllHashing at h
  by_cases hs : size < 0
  · simp [hs] at h
  · cases tail with
    | fail => simp [hs] at h
    | eof =>
      cases hd : digestOk md5 body expected
      · simp [hs, hd] at h
      · by_cases hl : (body.length : Int) = size
        · simp [hs, hd, hl] at h
          refine ⟨h.symm, hl, rfl, ?_⟩
          intro d he
          subst he
          simpa [digestOk] using hd
        · by_cases he : body.isEmpty <;> simp [hs, hd, hl, he] at h

theorem put_err_unchanged (md5 : Bytes → Bytes) (m : Mem) (b : Bytes) (k : Key) (md : Meta) (body : Bytes) (c : ErrCode)
    (h : (m.put md5 b k md body).2 = .err c) : (m.put md5 b k md body).1 = m := by
  unfold Mem.put Mem.putCommit at *
  cases hb : SMap.find m.buckets b with
  | none => simp [hb]
  | some bk => simp [hb] at h

/-- **rejected_unchanged**: for every state, configuration, key, header set and body stream
    (including one that fails after any number of bytes, a wrong/malformed/empty digest, a short
    or long body, an oversized key or metadata, a missing or malformed length, plain or
    aws-chunked): if the upload is not acknowledged, the store is exactly what it was when the
    handler started working on the bucket (identical to the state before the request unless
    auto-bucket creation made the bucket appear). -/
theorem rejected_unchanged (md5 : Bytes → Bytes) (cfg : Cfg) (ucfg : UploadCfg) (m : Mem) (b : Bytes) (k : Key) (rq : UploadReq)
    (hrej : ∀ h v, (Front.createObject md5 cfg ucfg m b k rq).2 ≠ .stored h v) :
    (Front.createObject md5 cfg ucfg m b k rq).1 = (Front.ensureBucket cfg m b).1 := by
  unfold Front.createObject Front.withBucket at *
  cases he : Front.ensureBucket cfg m b with
  | mk m1 r =>
    rw [he] at hrej
    cases r with
    | err c => rfl
    | panic s => rfl
    | ok u =>
      simp only at hrej ⊢
      cases hc : Front.uploadChecks md5 ucfg k rq with
      | err c => rfl
      | panic s => rfl
      | ok bytes =>
        simp only [hc] at hrej ⊢
        cases hp : Mem.put md5 m1 b k rq.md bytes with
        | mk m2 r2 =>
          cases r2 with
          | panic s =>
            exfalso
            unfold Mem.put Mem.putCommit at hp
            cases hb : SMap.find m1.buckets b <;> simp [hb] at hp
          | err c =>
            have := put_err_unchanged md5 m1 b k rq.md bytes c (by rw [hp])
            rw [hp] at this
            simpa using this
          | ok v =>
            exfalso
            apply hrej (md5 bytes) v
            simp [hp]

/-- an acknowledged upload stored exactly the bytes that arrived, all of them, and any digest
    that was sent (with integrity checking on) is their digest -/
theorem accepted_checks (md5 : Bytes → Bytes) (ucfg : UploadCfg) (k : Key) (rq : UploadReq) (bytes : Bytes)
    (hs : rq.streaming = false) (h : Front.uploadChecks md5 ucfg k rq = .ok bytes) :
    bytes = rq.body ∧ rq.tail = .eof ∧ k.length ≤ Front.KeySizeLimit ∧
    (ucfg.integrity = true → ∀ d, rq.md5 = .digest d → d = md5 rq.body) := by
  unfold Front.uploadChecks at h
  split at h
  · simp at h
  · cases hcl : rq.contentLength with
    | none => simp [hcl] at h
    | some cl =>
      simp only [hcl] at h
      cases hp : parseInt64 cl with
      | none => simp [hp] at h
      | some size0 =>
        simp only [hp] at h
        split at h
        · simp at h
        · split at h
          · simp at h
          · rename_i hk
            split at h
            · simp at h
            · simp only [hs, Bool.false_eq_true, if_false] at h
              cases hi : ucfg.integrity with
              | false =>
                simp only [hi, Bool.not_false, if_true] at h
                obtain ⟨e1, e2, e3, e4⟩ := accepted_is_body md5 size0 rq.body rq.tail none bytes h
                exact ⟨e1, e3, by omega, fun hh => by simp at hh⟩
              | true =>
                simp only [hi, Bool.not_true, Bool.false_eq_true, if_false] at h
                cases hm : rq.md5 with
                | absent =>
                  simp only [hm] at h
                  obtain ⟨e1, e2, e3, e4⟩ := accepted_is_body md5 size0 rq.body rq.tail none bytes h
                  exact ⟨e1, e3, by omega, fun _ d hd => by simp at hd⟩
                | empty =>
                  simp only [hm] at h
                  obtain ⟨e1, e2, e3, e4⟩ := accepted_is_body md5 size0 rq.body rq.tail none bytes h
                  exact ⟨e1, e3, by omega, fun _ d hd => by simp at hd⟩
                | malformed => simp [hm] at h
                | digest d =>
                  simp only [hm] at h
                  obtain ⟨e1, e2, e3, e4⟩ := accepted_is_body md5 size0 rq.body rq.tail (some d) bytes h
                  exact ⟨e1, e3, by omega, fun _ d' hd => by
                    simp only [Md5Hdr.digest.injEq] at hd; subst hd; exact e4 d rfl⟩

/-! Non-vacuity: a request with a wrong digest is rejected, with the right one accepted. -/
example : Front.uploadChecks id {} [107] ⟨some [51], .digest [1, 2, 3], false, none, [], [1, 2, 3], .eof⟩ = .ok [1, 2, 3] := by decide
example : Front.uploadChecks id {} [107] ⟨some [51], .digest [9, 9, 9], false, none, [], [1, 2, 3], .eof⟩ = .err .BadDigest := by decide
example : Front.uploadChecks id {} [107] ⟨some [52], .absent, false, none, [], [1, 2, 3], .eof⟩ = .err .IncompleteBody := by decide

end GFS.Props.C08
