import GFS.Model.Front
import GFS.Lemmas.SMapLemmas
set_option linter.unusedSimpArgs false
set_option linter.unusedVariables false
/-
  C07 — concurrent clients see linearizable behaviour (the logic of it).
  In the code an upload is three steps: read the body (no lock), read the existing metadata
  (read lock, released), commit (write lock).  Every other s3mem operation is one step under a
  lock.  The theorems below are about arbitrary interleavings of such steps.
-/
namespace GFS.Props.C07
open GFS GFS.Model GFS.SMapL

/-! ### what a reader can observe of a version, metadata aside -/

def vproj (v : Ver) : Nat × Bool × Bytes × Bytes := (v.id, v.marker, v.body, v.hash)
def oproj (o : Obj) : Option (Nat × Bool × Bytes × Bytes) × List (Nat × Bool × Bytes × Bytes) :=
  (o.data.map vproj, o.versions.map vproj)
def bproj (bk : Bucket) := (bk.versioning, mapV oproj bk.objects)
def mproj (m : Mem) := (mapV bproj m.buckets, m.nextVer)

/-- **commit_independent_of_merge_read**: the commit step of an upload produces the same
    answer (version id) and the same store — bodies, lengths, ETags, version ids, delete markers,
    archived versions, of every key of every bucket — whatever metadata snapshot the earlier,
    unlocked merge step happened to read.  Hence an upload whose merge read was overtaken by
    other requests is indistinguishable, on everything C07 names, from the same upload executed
    atomically at its commit point: operations linearize in the order of their commit steps,
    which lies between invocation and response. -/
theorem commit_independent_of_merge_read (md5 : Bytes → Bytes) (m : Mem) (b : Bytes) (k : Key) (md1 md2 : Meta) (body : Bytes) :
    (m.putCommit md5 b k md1 body).2 = (m.putCommit md5 b k md2 body).2 ∧
    mproj (m.putCommit md5 b k md1 body).1 = mproj (m.putCommit md5 b k md2 body).1 := by
  unfold Mem.putCommit
  cases hb : SMap.find m.buckets b with
  | none => exact ⟨rfl, rfl⟩
  | some bk =>
    refine ⟨rfl, ?_⟩
    simp only [mproj, mapV_insert, bproj, Bucket.put, oproj, vproj, Option.map_some]

/-- an upload overtaken between its merge read (state `m0`) and its commit (state `m`) versus
    the same upload executed atomically at the commit point -/
theorem overtaken_upload_linearizes (md5 : Bytes → Bytes) (m0 m : Mem) (b : Bytes) (k : Key) (md : Meta) (body : Bytes) :
    (m.putCommit md5 b k (m0.mergedMeta b k md) body).2 = (m.put md5 b k md body).2 ∧
    mproj (m.putCommit md5 b k (m0.mergedMeta b k md) body).1 = mproj (m.put md5 b k md body).1 :=
  commit_independent_of_merge_read md5 m b k _ _ body

/-! ### a read returns, in full, one upload: body, length and ETag always belong together -/

def VerOk (md5 : Bytes → Bytes) (v : Ver) : Prop := v.marker = true ∨ v.hash = md5 v.body
def ObjOk (md5 : Bytes → Bytes) (o : Obj) : Prop := (∀ d, o.data = some d → VerOk md5 d) ∧ ∀ v ∈ o.versions, VerOk md5 v
def BOk (md5 : Bytes → Bytes) (bk : Bucket) : Prop := ∀ p ∈ bk.objects, ObjOk md5 p.2
def Consistent (md5 : Bytes → Bytes) (m : Mem) : Prop := ∀ q ∈ m.buckets, BOk md5 q.2

theorem insertVer_mem (vs : List Ver) (v : Ver) : ∀ w ∈ insertVer vs v, w = v ∨ w ∈ vs := by
  induction vs with
  | nil => intro w hw; simp [insertVer] at hw; exact Or.inl hw
  | cons x xs ih =>
    intro w hw
    unfold insertVer at hw
    split at hw
    · rcases List.mem_cons.mp hw with h | h
      · exact Or.inl h
      · exact Or.inr (List.mem_cons_of_mem _ h)
    · split at hw
      · rcases List.mem_cons.mp hw with h | h
        · exact Or.inl h
        · exact Or.inr h
      · rcases List.mem_cons.mp hw with h | h
        · exact Or.inr (h ▸ List.mem_cons_self ..)
        · rcases ih w h with h2 | h2
          · exact Or.inl h2
          · exact Or.inr (List.mem_cons_of_mem _ h2)

theorem bput_ok (md5 : Bytes → Bytes) (bk : Bucket) (k : Key) (item : Ver) (h : BOk md5 bk) (hi : VerOk md5 item) :
    BOk md5 (bk.put k item) := by
  intro p hp
  unfold Bucket.put at hp
  rcases mem_insert _ _ _ p hp with e | e
  · subst e
    -- the old object, if any, is consistent
    have hold : ObjOk md5 ((SMap.find bk.objects k).getD ⟨none, []⟩) := by
      cases hf : SMap.find bk.objects k with
      | none => exact ⟨by intro d hd; simp at hd, by intro v hv; simp at hv⟩
      | some o =>
        obtain ⟨k0, hm⟩ := find_mem _ _ _ hf
        exact h (k0, o) hm
    constructor
    · intro d hd; simp only [Option.some.injEq] at hd; subst hd; exact hi
    · intro v hv
      simp only at hv
      split at hv
      · split at hv
        · rename_i d hd
          rcases insertVer_mem _ _ v hv with e1 | e1
          · subst e1; exact hold.1 _ hd
          · exact hold.2 v e1
        · exact hold.2 v hv
      · exact hold.2 v hv
  · exact h p e

/-- **commit_keeps_consistency**: whatever was read when (any `md'`), the commit step stores a
    version whose ETag is the digest of exactly its own bytes, and disturbs no other version -/
theorem commit_keeps_consistency (md5 : Bytes → Bytes) (m : Mem) (b : Bytes) (k : Key) (md' : Meta) (body : Bytes)
    (h : Consistent md5 m) : Consistent md5 (m.putCommit md5 b k md' body).1 := by
  unfold Mem.putCommit
  cases hb : SMap.find m.buckets b with
  | none => exact h
  | some bk =>
    obtain ⟨b0, hm⟩ := find_mem _ _ _ hb
    intro q hq
    rcases mem_insert _ _ _ q hq with e | e
    · subst e; exact bput_ok md5 bk k _ (h (b0, bk) hm) (Or.inr rfl)
    · exact h q e

/-- **read_is_one_whole_upload**: in a consistent store every successful read returns a body
    together with the digest of exactly that body — never a mixture, a truncated body, or an
    ETag that belongs to other bytes -/
theorem read_is_one_whole_upload (md5 : Bytes → Bytes) (m : Mem) (b : Bytes) (k : Key) (v : Ver)
    (h : Consistent md5 m) (hg : m.get b k = .ok v) : v.hash = md5 v.body := by
  unfold Mem.get Mem.current at hg
  cases hb : SMap.find m.buckets b with
  | none => simp [hb] at hg
  | some bk =>
    simp only [hb] at hg
    cases ho : SMap.find bk.objects k with
    | none => simp [ho] at hg
    | some o =>
      simp only [ho] at hg
      obtain ⟨b0, hm⟩ := find_mem _ _ _ hb
      obtain ⟨k0, hk⟩ := find_mem _ _ _ ho
      have hok := h (b0, bk) hm (k0, o) hk
      cases hd : o.data with
      | none => simp [hd] at hg
      | some d =>
        simp only [hd] at hg
        split at hg
        · simp at hg
        · rename_i hmk
          simp only [Res.ok.injEq] at hg
          subst hg
          rcases hok.1 d hd with e | e
          · exact absurd e hmk
          · exact e

/-! ### every versioned upload gets a distinct id -/

/-- **commit_id_fresh**: the id a commit step draws is above the counter, and the counter only
    grows: two commit steps — in any interleaving — never hand out the same id -/
theorem commit_id_fresh (md5 : Bytes → Bytes) (m : Mem) (b : Bytes) (k : Key) (md' : Meta) (body : Bytes) (bk : Bucket)
    (hb : SMap.find m.buckets b = some bk) :
    (m.putCommit md5 b k md' body).1.nextVer = m.nextVer + 1 ∧
    ((m.putCommit md5 b k md' body).2 = .ok (some (m.nextVer + 1)) ∨ (m.putCommit md5 b k md' body).2 = .ok none) := by
  unfold Mem.putCommit
  simp only [hb]
  refine ⟨trivial, ?_⟩
  split
  · exact Or.inl rfl
  · exact Or.inr rfl

theorem counter_monotone_delete (m : Mem) (b : Bytes) (k : Key) : m.nextVer ≤ (m.delete b k).1.nextVer := by
  unfold Mem.delete
  cases hb : SMap.find m.buckets b with
  | none => exact Nat.le_refl _
  | some bk => simp only; split <;> omega

/-! Non-vacuity -/
example : Consistent id Mem.empty := by intro q hq; simp [Mem.empty] at hq

end GFS.Props.C07
