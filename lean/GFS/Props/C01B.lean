import GFS.Props.C01
import GFS.Props.BoltR
import GFS.Props.FsR
set_option linter.unusedSimpArgs false
set_option linter.unusedVariables false
/-
  C01 on the other backends' models: after an acknowledged PutObject, GetObject / HeadObject
  return exactly the uploaded bytes, the digest of those bytes, and every header that was sent
  — on s3bolt (Model/Bolt) and on the multi-bucket file-system backend (Model/FsBackend).
-/
namespace GFS.Props.C01B
open GFS GFS.Model GFS.Props.C01

/-! ### s3bolt -/
section bolt
open GFS.Model.Bolt

/-- what an acknowledged `PutObject` did -/
theorem bolt_put_ok (md5 : Bytes → Bytes) (db db' : DB) (b k : Bytes) (sent : Meta) (body : Bytes)
    (hput : putObject md5 db b k sent body = (db', .ok ())) :
    ∃ kv0, (b == metaName) = false ∧ SMap.find db b = some kv0 ∧
      db' = SMap.insert db b (SMap.insert kv0 k (.obj ⟨body, md5 body, mergedMeta db b k sent⟩)) := by
  unfold putObject update boltPut at hput
  cases hs : s3Bucket db b with
  | none => simp [hs] at hput
  | some kv0 =>
    have hbm : (b == metaName) = false := by
      cases hb : (b == metaName) with
      | false => rfl
      | true => simp [s3Bucket, hb] at hs
    have hf : SMap.find db b = some kv0 := by simpa [s3Bucket, hbm] using hs
    refine ⟨kv0, hbm, hf, ?_⟩
    simp only [hs, hf] at hput
    by_cases hc : (k.isEmpty || decide (k.length > maxKeySize)) = true
    · simp [hc] at hput
    · simp only [hc, Bool.false_eq_true, if_false, Prod.mk.injEq, and_true] at hput
      exact hput.symm

/-- **bolt_put_get**: on s3bolt, in any database, after `PutObject` acknowledges an upload of
    `body` with headers `sent` to (bucket, key), `GetObject` of that key returns exactly `body`,
    the digest `md5 body`, and metadata in which every sent header has the sent value. -/
theorem bolt_put_get (md5 : Bytes → Bytes) (db db' : DB) (b k : Bytes) (sent : Meta) (body : Bytes)
    (hput : putObject md5 db b k sent body = (db', .ok ())) :
    ∃ md, getObject db' b k = .ok ⟨body, md5 body, md⟩ ∧ ∀ h v, SMap.find sent h = some v → SMap.find md h = some v := by
  obtain ⟨kv0, hbm, hf, rfl⟩ := bolt_put_ok md5 db db' b k sent body hput
  refine ⟨mergedMeta db b k sent, ?_, ?_⟩
  · simp [getObject, s3Bucket, hbm, SMap.find_insert_self]
  · intro h v hv
    unfold mergedMeta
    cases getObject db b k with
    | ok old => exact mergeMeta_keeps_new sent old.md h v hv
    | err c => exact hv
    | panic s => exact hv

/-- an upload to one key leaves every other key of every bucket as it was -/
theorem bolt_put_frame (md5 : Bytes → Bytes) (db db' : DB) (b k b' k' : Bytes) (sent : Meta) (body : Bytes)
    (hput : putObject md5 db b k sent body = (db', .ok ())) (hne : ¬ (b' = b ∧ k' = k)) :
    getObject db' b' k' = getObject db b' k' := by
  obtain ⟨kv0, hbm, hf, rfl⟩ := bolt_put_ok md5 db db' b k sent body hput
  unfold getObject s3Bucket
  by_cases hb' : b' = b
  · subst hb'
    have hk : k ≠ k' := fun e => hne ⟨rfl, e.symm⟩
    simp only [hbm, Bool.false_eq_true, if_false, SMap.find_insert_self, hf]
    rw [SMap.find_insert_ne _ _ _ _ hk]
  · have : b ≠ b' := fun e => hb' e.symm
    by_cases hm : (b' == metaName) = true
    · simp [hm]
    · simp only [hm, Bool.false_eq_true, if_false]
      rw [SMap.find_insert_ne _ _ _ _ this]
end bolt

/-! ### the file-system backend -/
section fs
open GFS.Model.Fs GFS.Model.FsB GFS.Props.FsInv GFS.Props.FsR

/-- **fs_put_get**: on the file-system backend, after `PutObject` acknowledges an upload (the
    key was a clean relative path without conflicts), `GetObject` returns exactly the uploaded
    bytes, the digest of those bytes (whether stored or recomputed by `loadMeta`), and every sent
    header with the sent value. -/
theorem fs_put_get (md5 : Bytes → Bytes) (s s' : FsS) (b k : Bytes) (sent : Meta) (body : Bytes)
    (hput : FsB.putObject md5 s b k sent body = (s', .ok ())) :
    ∃ md, FsB.getObject md5 s' b k = .ok ⟨body, md5 body, md⟩ ∧ ∀ h v, SMap.find sent h = some v → SMap.find md h = some v := by
  unfold FsB.putObject at hput
  cases hk : keyPath k with
  | none => simp [hk] at hput
  | some p =>
    simp only [hk] at hput
    cases hb : SMap.find s.buckets b with
    | none => simp [hb] at hput
    | some bk =>
      simp only [hb] at hput
      cases hp : Fs.put bk.tree p body with
      | none => simp [hp] at hput
      | some t' =>
        simp only [hp, Prod.mk.injEq, and_true] at hput
        subst hput
        refine ⟨FsB.mergedMeta md5 s b k sent, ?_, ?_⟩
        · simp [FsB.getObject, SMap.find_insert_self, getKey, hk, put_get bk.tree p body t' hp]
        · intro h v hv
          unfold FsB.mergedMeta
          cases FsB.getObject md5 s b k with
          | ok old => exact mergeMeta_keeps_new sent old.md h v hv
          | err c => exact hv
          | panic x => exact hv
end fs


/-! Non-vacuity: an acknowledged upload on each model. -/
example : (Bolt.putObject id (Bolt.createBucket Bolt.DB.empty [98, 107, 49]).1 [98, 107, 49] [107] [([67], [116])] [1, 2]).2 = .ok () := by decide
example : (FsB.putObject id (FsB.createBucket FsB.FsS.empty [98, 107, 49]).1 [98, 107, 49] [100, 47, 107] [([67], [116])] [1, 2]).2 = .ok () := by decide

end GFS.Props.C01B
