import GFS.Model.FsDisk
import GFS.Lemmas.SMapLemmas
set_option linter.unusedSimpArgs false
set_option linter.unusedVariables false
/-
  C15 on the disk-level model of the file-system backends (Model/FsDisk): what a server started
  on the storage reads back after acknowledged operations, and after an operation a kill cut at
  any of its file-system calls.

  A restart is the identity on `Disk`: the backend value holds no object state of its own (the
  cached mod-time resolution `r` is re-probed to the same value on the same file system).
-/
namespace GFS.Props.C15D
open GFS GFS.Model GFS.Model.FsDisk

/-! ### loadMeta -/

/-- a record that agrees with the file carries the digest of the file's bytes -/
def Sound (md5 : Bytes → Bytes) (r : Nat) (s : Slot) : Prop :=
  ∀ f m, s.file = some f → s.mrec = some m → stale r f m = false → m.hash = md5 f.body

/-- a read never fails on a file that exists, whatever the record looks like (D22 repaired) -/
theorem load_ok_of_file (md5 : Bytes → Bytes) (r : Nat) (s : Slot) (f : FileSt) (h : s.file = some f) :
    ∃ o, (load md5 r s).2 = .ok o ∧ o.body = f.body := by
  unfold load; simp only [h]
  split
  · exact ⟨_, rfl, rfl⟩
  · exact ⟨_, rfl, rfl⟩

theorem load_none (md5 : Bytes → Bytes) (r : Nat) (s : Slot) (h : s.file = none) :
    (load md5 r s).2 = .err .NoSuchKey := by
  unfold load; simp [h]

/-- **load_hash_sound**: in a sound slot the reported digest is the digest of the reported bytes -/
theorem load_hash_sound (md5 : Bytes → Bytes) (r : Nat) (s : Slot) (hs : Sound md5 r s) (o : Obs)
    (h : (load md5 r s).2 = .ok o) : o.hash = md5 o.body := by
  unfold load at h
  cases hf : s.file with
  | none => simp [hf] at h
  | some f =>
    simp only [hf] at h
    split at h
    · simp only [Res.ok.injEq] at h; subst h; rfl
    · rename_i hst
      simp only [Res.ok.injEq] at h; subst h
      cases hm : s.mrec with
      | none =>
        simp only [hm, Option.getD_none] at hst
        simp [stale, MetaRec.zero] at hst
      | some m =>
        simp only [hm, Option.getD_some] at hst ⊢
        exact hs f m hf hm (by simpa using hst)

/-- the record a read leaves behind is sound, and so is the one it found sound -/
theorem load_sound (md5 : Bytes → Bytes) (hmd5 : ∀ x, md5 x ≠ []) (r : Nat) (s : Slot) (hs : Sound md5 r s) :
    Sound md5 r (load md5 r s).1 := by
  unfold load
  cases hf : s.file with
  | none => simpa [hf] using hs
  | some f =>
    simp only
    split
    · intro f' m' h1 h2 _
      simp only [Option.some.injEq] at h1 h2
      subst h1; subst h2; rfl
    · exact hs

/-- **load_idem**: a read repairs the record once: reading again reports the same and changes
    nothing any more -/
theorem load_idem (md5 : Bytes → Bytes) (hmd5 : ∀ x, md5 x ≠ []) (r : Nat) (s : Slot) :
    load md5 r (load md5 r s).1 = ((load md5 r s).1, (load md5 r s).2) := by
  unfold load
  cases hf : s.file with
  | none => simp [hf]
  | some f =>
    simp only
    by_cases hst : stale r f (s.mrec.getD MetaRec.zero) = true
    · simp only [hst, if_true, Option.getD_some]
      have : stale r f { (s.mrec.getD MetaRec.zero) with size := f.body.length, mtime := f.mtime, hash := md5 f.body } = false := by
        have := hmd5 f.body
        simp [stale, List.isEmpty_iff, this]
      simp [this]
    · simp only [hst, Bool.false_eq_true, if_false, hf]

/-! ### acknowledged operations -/

theorem done_sound (md5 : Bytes → Bytes) (r now : Nat) (s : Slot) (body : Bytes) (md : Meta) :
    Sound md5 r (putCut md5 now s body md .done) := by
  intro f m h1 h2 _
  simp only [putCut, Option.some.injEq] at h1 h2
  subst h1; subst h2; rfl

/-- **put_ack_read**: an acknowledged upload reads back with exactly its bytes, the digest of its
    bytes and its headers — whatever the slot held before (a torn state included), whatever the
    clock said, whatever the resolution: the record stores the size and mod time `Stat` reported
    for the very file it describes -/
theorem put_ack_read (md5 : Bytes → Bytes) (hmd5 : ∀ x, md5 x ≠ []) (r now : Nat) (s : Slot) (body : Bytes) (md : Meta) :
    load md5 r (putCut md5 now s body md .done) = (putCut md5 now s body md .done, .ok ⟨body, md5 body, md⟩) := by
  have := hmd5 body
  simp [load, putCut, stale, List.isEmpty_iff, this]

theorem del_ack_read (md5 : Bytes → Bytes) (r : Nat) (s : Slot) :
    (load md5 r (delCut s .done)).2 = .err .NoSuchKey := by
  simp [load, delCut]

/-- every history of acknowledged operations from the empty disk leaves sound slots only -/
theorem slotOf_insert_self (d : Disk) (k : Bytes) (s : Slot) : slotOf (SMap.insert d k s) k = s := by
  simp [slotOf, SMap.find_insert_self]

theorem slotOf_insert_ne (d : Disk) (k j : Bytes) (s : Slot) (h : k ≠ j) : slotOf (SMap.insert d k s) j = slotOf d j := by
  simp [slotOf, SMap.find_insert_ne _ _ _ _ h]

def DiskSound (md5 : Bytes → Bytes) (r : Nat) (d : Disk) : Prop := ∀ k, Sound md5 r (slotOf d k)

theorem step_sound (md5 : Bytes → Bytes) (hmd5 : ∀ x, md5 x ≠ []) (r : Nat) (d : Disk) (op : Op)
    (h : DiskSound md5 r d) : DiskSound md5 r (step md5 r d op) := by
  intro j
  cases op with
  | put k body md now =>
    by_cases hk : k = j
    · subst hk; simp only [step, slotOf_insert_self]; exact done_sound md5 r now _ body md
    · simp only [step, slotOf_insert_ne _ _ _ _ hk]; exact h j
  | del k =>
    by_cases hk : k = j
    · subst hk; simp only [step, slotOf_insert_self]
      intro f m h1; simp [delCut] at h1
    · simp only [step, slotOf_insert_ne _ _ _ _ hk]; exact h j
  | get k =>
    by_cases hk : k = j
    · subst hk; simp only [step, slotOf_insert_self]; exact load_sound md5 hmd5 r _ (h k)
    · simp only [step, slotOf_insert_ne _ _ _ _ hk]; exact h j

theorem run_sound (md5 : Bytes → Bytes) (hmd5 : ∀ x, md5 x ≠ []) (r : Nat) (ops : List Op) (d : Disk)
    (h : DiskSound md5 r d) : DiskSound md5 r (run md5 r d ops) := by
  induction ops generalizing d with
  | nil => exact h
  | cons op ops ih => exact ih _ (step_sound md5 hmd5 r d op h)

theorem empty_sound (md5 : Bytes → Bytes) (r : Nat) : DiskSound md5 r [] := by
  intro k f m h1; simp [slotOf, SMap.find, Slot.absent] at h1

/-- the abstract content of the disk: per key the stored bytes and headers -/
def content (d : Disk) (k : Bytes) : Option (Bytes × Meta) :=
  match (slotOf d k).file with
  | none => none
  | some f => some (f.body, ((slotOf d k).mrec.getD MetaRec.zero).md)

/-- the key-value semantics the statement of C15 calls "the same keys, bodies, sizes, ETags and
    metadata" -/
def specStep (c : Bytes → Option (Bytes × Meta)) : Op → Bytes → Option (Bytes × Meta)
  | .put k body md _ => fun j => if j = k then some (body, md) else c j
  | .del k => fun j => if j = k then none else c j
  | .get _ => c

theorem load_content (md5 : Bytes → Bytes) (r : Nat) (s : Slot) :
    (load md5 r s).1.file = s.file ∧
    ((load md5 r s).1.mrec.getD MetaRec.zero).md = (s.mrec.getD MetaRec.zero).md := by
  unfold load
  cases hf : s.file with
  | none => simp [hf]
  | some f =>
    simp only
    split
    · simp
    · simp [hf]

theorem step_content (md5 : Bytes → Bytes) (r : Nat) (d : Disk) (op : Op) :
    content (step md5 r d op) = specStep (content d) op := by
  funext j
  cases op with
  | put k body md now =>
    by_cases hk : k = j
    · subst hk; simp [step, content, specStep, slotOf_insert_self, putCut]
    · have : ¬ j = k := fun h => hk h.symm
      simp [step, content, specStep, slotOf_insert_ne _ _ _ _ hk, this]
  | del k =>
    by_cases hk : k = j
    · subst hk; simp [step, content, specStep, slotOf_insert_self, delCut]
    · have : ¬ j = k := fun h => hk h.symm
      simp [step, content, specStep, slotOf_insert_ne _ _ _ _ hk, this]
  | get k =>
    by_cases hk : k = j
    · subst hk
      obtain ⟨h1, h2⟩ := load_content md5 r (slotOf d k)
      simp only [step, content, specStep, slotOf_insert_self, h1, h2]
    · simp [step, content, specStep, slotOf_insert_ne _ _ _ _ hk]

/-- **read_of_content**: on a sound disk a read reports exactly the content: bytes, the digest of
    the bytes, the headers; NoSuchKey for a key without a file -/
theorem read_of_content (md5 : Bytes → Bytes) (r : Nat) (d : Disk) (h : DiskSound md5 r d) (k : Bytes) :
    readKey md5 r d k = match content d k with
      | none => .err .NoSuchKey
      | some (body, md) => .ok ⟨body, md5 body, md⟩ := by
  unfold readKey content
  cases hf : (slotOf d k).file with
  | none => simp [load_none md5 r _ hf]
  | some f =>
    obtain ⟨o, ho, hb⟩ := load_ok_of_file md5 r _ f hf
    have hh := load_hash_sound md5 r _ (h k) o ho
    have hmd : o.md = ((slotOf d k).mrec.getD MetaRec.zero).md := by
      have := ho
      unfold load at this
      simp only [hf] at this
      split at this <;> (simp only [Res.ok.injEq] at this; subst this; rfl)
    rw [ho]
    cases o with
    | mk b hs m => simp only at hb hh hmd; subst hb; subst hmd; rw [hh]

/-- **acknowledged_history_survives**: after any history of acknowledged uploads, deletes and
    reads on an initially empty bucket, a server started on the storage reads every key exactly as
    the key-value semantics of the history says: the bytes of the last upload, their digest, its
    headers; NoSuchKey after a delete or for a key never written -/
theorem acknowledged_history_survives (md5 : Bytes → Bytes) (hmd5 : ∀ x, md5 x ≠ []) (r : Nat) (ops : List Op) (k : Bytes) :
    readKey md5 r (run md5 r [] ops) k =
      match ops.foldl specStep (fun _ => none) k with
      | none => .err .NoSuchKey
      | some (body, md) => .ok ⟨body, md5 body, md⟩ := by
  have hs := run_sound md5 hmd5 r ops [] (empty_sound md5 r)
  rw [read_of_content md5 r _ hs k]
  have : ∀ (ops : List Op) (d : Disk) (c : Bytes → Option (Bytes × Meta)), content d = c →
      content (run md5 r d ops) = ops.foldl specStep c := by
    intro ops
    induction ops with
    | nil => intro d c h; exact h
    | cons op ops ih =>
      intro d c h
      simp only [run, List.foldl_cons]
      exact ih _ _ (by rw [step_content, h])
  have h0 : content ([] : Disk) = fun _ => none := by
    funext j; simp [content, slotOf, SMap.find, Slot.absent]
  rw [this ops [] _ h0]

/-! ### killed operations -/

/-- **crash_frame**: a kill in the middle of an operation on `k` leaves what every other key
    reads as untouched (every acknowledged write of another key is present and intact) -/
theorem crash_frame (md5 : Bytes → Bytes) (r : Nat) (d : Disk) (c : Cut) (j : Bytes) (h : c.key ≠ j) :
    readKey md5 r (crash md5 d c) j = readKey md5 r d j := by
  cases c with
  | put k body md now c => simp only [Cut.key] at h; simp [readKey, crash, slotOf_insert_ne _ _ _ _ h]
  | del k c => simp only [Cut.key] at h; simp [readKey, crash, slotOf_insert_ne _ _ _ _ h]

/-- **crash_never_5xx**: after a kill at any call of any operation every key still answers a read
    with an object or NoSuchKey — never an internal error, never a panic -/
theorem crash_never_5xx (md5 : Bytes → Bytes) (r : Nat) (d : Disk) (c : Cut) (j : Bytes) :
    (∃ o, readKey md5 r (crash md5 d c) j = .ok o) ∨ readKey md5 r (crash md5 d c) j = .err .NoSuchKey := by
  unfold readKey
  cases hf : (slotOf (crash md5 d c) j).file with
  | none => exact Or.inr (load_none md5 r _ hf)
  | some f => obtain ⟨o, ho, _⟩ := load_ok_of_file md5 r _ f hf; exact Or.inl ⟨o, ho⟩

/-- **crash_delete_atomic**: a delete cut anywhere reads as not begun or as complete -/
theorem crash_delete_atomic (md5 : Bytes → Bytes) (r : Nat) (d : Disk) (k : Bytes) (c : DelCut) :
    readKey md5 r (crash md5 d (.del k c)) k = readKey md5 r d k ∨
    readKey md5 r (crash md5 d (.del k c)) k = .err .NoSuchKey := by
  cases c with
  | beforeRemove => left; simp [readKey, crash, slotOf_insert_self, delCut]
  | afterRemove => right; simp [readKey, crash, slotOf_insert_self, delCut, load]
  | done => right; simp [readKey, crash, slotOf_insert_self, delCut, load]

/-- the old record is older than the cut write by more than the clock's resolution -/
def Fresh (r now : Nat) (s : Slot) : Prop := ∀ m, s.mrec = some m → m.mtime + r < now

/-- **crash_put_outcomes**: what a server started after a kill reads for the key of the upload in
    flight, cut by cut.  Not begun and complete are the two outcomes the statement allows; the
    other four are the torn states of known finding D16-crash, and there are no others: the bytes
    are a prefix of the new body, the digest is the digest of those bytes, the headers are the
    old ones (none once the record file has been truncated). -/
theorem crash_put_outcomes (md5 : Bytes → Bytes) (hmd5 : ∀ x, md5 x ≠ []) (r : Nat) (d : Disk) (k body : Bytes) (md : Meta)
    (now : Nat) (hfresh : Fresh r now (slotOf d k)) (c : PutCut) :
    readKey md5 r (crash md5 d (.put k body md now c)) k =
      match c with
      | .beforeCreate => readKey md5 r d k
      | .afterCreate => .ok ⟨[], md5 [], ((slotOf d k).mrec.getD MetaRec.zero).md⟩
      | .midWrite n => .ok ⟨body.take n, md5 (body.take n), ((slotOf d k).mrec.getD MetaRec.zero).md⟩
      | .afterWrite => .ok ⟨body, md5 body, ((slotOf d k).mrec.getD MetaRec.zero).md⟩
      | .metaTruncated => .ok ⟨body, md5 body, []⟩
      | .done => .ok ⟨body, md5 body, md⟩ := by
  have hst : ∀ b : Bytes, stale r ⟨b, now⟩ ((slotOf d k).mrec.getD MetaRec.zero) = true := by
    intro b
    cases hm : (slotOf d k).mrec with
    | none => simp [stale, MetaRec.zero]
    | some m =>
      have := hfresh m hm
      simp only [Option.getD_some, stale, Bool.or_eq_true, decide_eq_true_eq]
      left; right; exact this
  cases c with
  | beforeCreate => simp [readKey, crash, slotOf_insert_self, putCut]
  | afterCreate => simp [readKey, crash, slotOf_insert_self, putCut, load, hst]
  | midWrite n => simp [readKey, crash, slotOf_insert_self, putCut, load, hst]
  | afterWrite => simp [readKey, crash, slotOf_insert_self, putCut, load, hst]
  | metaTruncated => simp [readKey, crash, slotOf_insert_self, putCut, load, stale, MetaRec.zero]
  | done =>
    simp only [readKey, crash, slotOf_insert_self]
    rw [put_ack_read md5 hmd5]

/-- whatever the clock did: the bytes read after a cut upload are the old object's or a prefix
    of the new body -/
theorem crash_put_body (md5 : Bytes → Bytes) (r : Nat) (d : Disk) (k body : Bytes) (md : Meta) (now : Nat) (c : PutCut) :
    readKey md5 r (crash md5 d (.put k body md now c)) k = readKey md5 r d k ∨
    ∃ o n, readKey md5 r (crash md5 d (.put k body md now c)) k = .ok o ∧ o.body = body.take n := by
  cases c with
  | beforeCreate => left; simp [readKey, crash, slotOf_insert_self, putCut]
  | afterCreate =>
    right
    obtain ⟨o, ho, hb⟩ := load_ok_of_file md5 r (putCut md5 now (slotOf d k) body md .afterCreate) ⟨[], now⟩ rfl
    exact ⟨o, 0, by simpa [readKey, crash, slotOf_insert_self] using ho, by simpa using hb⟩
  | midWrite n =>
    right
    obtain ⟨o, ho, hb⟩ := load_ok_of_file md5 r (putCut md5 now (slotOf d k) body md (.midWrite n)) ⟨body.take n, now⟩ rfl
    exact ⟨o, n, by simpa [readKey, crash, slotOf_insert_self] using ho, hb⟩
  | afterWrite =>
    right
    obtain ⟨o, ho, hb⟩ := load_ok_of_file md5 r (putCut md5 now (slotOf d k) body md .afterWrite) ⟨body, now⟩ rfl
    exact ⟨o, body.length, by simpa [readKey, crash, slotOf_insert_self] using ho, by simpa using hb⟩
  | metaTruncated =>
    right
    obtain ⟨o, ho, hb⟩ := load_ok_of_file md5 r (putCut md5 now (slotOf d k) body md .metaTruncated) ⟨body, now⟩ rfl
    exact ⟨o, body.length, by simpa [readKey, crash, slotOf_insert_self] using ho, by simpa using hb⟩
  | done =>
    right
    obtain ⟨o, ho, hb⟩ := load_ok_of_file md5 r (putCut md5 now (slotOf d k) body md .done) ⟨body, now⟩ rfl
    exact ⟨o, body.length, by simpa [readKey, crash, slotOf_insert_self] using ho, by simpa using hb⟩

/-! ### the clause the code does not meet (known finding D16-crash) -/

/-- "any write in flight is either wholly present or wholly absent" -/
def InflightAtomic (md5 : Bytes → Bytes) (r : Nat) : Prop :=
  ∀ (d : Disk) (k body : Bytes) (md : Meta) (now : Nat) (c : PutCut),
    readKey md5 r (crash md5 d (.put k body md now c)) k = readKey md5 r d k ∨
    readKey md5 r (crash md5 d (.put k body md now c)) k = readKey md5 r (crash md5 d (.put k body md now .done)) k

/-- **inflight_not_atomic**: refuted with a witness: an overwrite cut in the middle of its write
    reads as half of the new body under the old headers -/
theorem inflight_not_atomic : ¬ InflightAtomic (fun b => 0 :: b) 0 := by
  intro h
  have := h [([107], ⟨some ⟨[1, 1], 1⟩, some ⟨2, 1, [0, 1, 1], [([120], [121])]⟩⟩)] [107] [2, 2, 2, 2] [] 5 (.midWrite 2)
  revert this
  decide

/-- without `Fresh` even the digest can be wrong: an overwrite of the same length within the
    clock's resolution, cut before its record is written, reads as the new bytes under the old
    digest -/
theorem crash_stale_digest :
    readKey (fun b => 0 :: b) 0 (crash (fun b => 0 :: b) [([107], ⟨some ⟨[1, 1], 1⟩, some ⟨2, 1, [0, 1, 1], []⟩⟩)]
      (.put [107] [2, 2] [] 1 .afterWrite)) [107] = .ok ⟨[2, 2], [0, 1, 1], []⟩ := by
  decide

/-! Non-vacuity: a history with an overwrite, a delete and a read; a fresh cut. -/
example : readKey (fun b => 0 :: b) 3 (run (fun b => 0 :: b) 3 []
    [.put [107] [1] [([120], [121])] 10, .put [107] [2, 2] [] 11, .get [107], .put [108] [3] [] 11, .del [108]]) [107]
    = .ok ⟨[2, 2], [0, 2, 2], []⟩ := by decide
example : Fresh 3 20 (slotOf (run (fun b => 0 :: b) 3 [] [.put [107] [1] [] 10]) [107]) := by
  intro m h; simp [run, step, slotOf, SMap.find, SMap.insert, putCut, Slot.absent] at h; subst h; decide

end GFS.Props.C15D
