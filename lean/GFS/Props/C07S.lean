import GFS.Props.C07
set_option linter.unusedSimpArgs false
set_option linter.unusedVariables false
/-
  C07 at schedule level.  `strip` forgets every stored metadata map; two stores with the same
  `strip` are indistinguishable on everything C07 names (bodies, lengths, ETags, version ids,
  delete markers, archived versions, versioning status, the id counter).  Every operation
  commutes with `strip`, and the commit step of an upload commutes with it whatever metadata it
  carries — so ANY interleaving of the steps of any number of uploads with any other operations
  is, on those observables, the sequential run in which each upload happens atomically at its
  commit step.
-/
namespace GFS.Props.C07S
open GFS GFS.Model GFS.SMapL

def stripV (v : Ver) : Ver := { v with md := [] }
def stripO (o : Obj) : Obj := ⟨o.data.map stripV, o.versions.map stripV⟩
def stripB (bk : Bucket) : Bucket := ⟨bk.versioning, mapV stripO bk.objects⟩
def strip (m : Mem) : Mem := ⟨mapV stripB m.buckets, m.nextVer⟩

@[simp] theorem stripV_id (v : Ver) : (stripV v).id = v.id := rfl
@[simp] theorem stripV_marker (v : Ver) : (stripV v).marker = v.marker := rfl
@[simp] theorem stripV_idem (v : Ver) : stripV (stripV v) = stripV v := rfl

theorem insertVer_strip (vs : List Ver) (v : Ver) :
    insertVer (vs.map stripV) (stripV v) = (insertVer vs v).map stripV := by
  induction vs with
  | nil => rfl
  | cons w ws ih =>
    simp only [List.map_cons, insertVer, stripV_id]
    by_cases h1 : (w.id == v.id) = true
    · simp [h1]
    · by_cases h2 : v.id < w.id
      · simp [h1, h2]
      · simp [h1, h2, ih]

theorem promote_strip (o : Obj) : (stripO o).promote = stripO o.promote := by
  unfold Obj.promote stripO
  cases hd : o.data with
  | some d => simp [hd]
  | none =>
    simp only [Option.map_none, hd]
    cases hl : o.versions.getLast? with
    | none =>
      have : (o.versions.map stripV).getLast? = none := by simp [List.getLast?_map, hl]
      simp [this, hd]
    | some l =>
      have : (o.versions.map stripV).getLast? = some (stripV l) := by simp [List.getLast?_map, hl]
      simp [this, List.map_dropLast]

theorem find_stripB (bk : Bucket) (k : Key) : SMap.find (stripB bk).objects k = (SMap.find bk.objects k).map stripO := by
  simp [stripB, find_mapV]

theorem bput_strip (bk : Bucket) (k : Key) (item : Ver) :
    stripB (bk.put k item) = (stripB bk).put k (stripV item) := by
  unfold Bucket.put
  simp only [stripB, mapV_insert, find_mapV]
  congr 2
  cases hf : SMap.find bk.objects k with
  | none => simp [stripO]
  | some o =>
    simp only [Option.map_some, Option.getD_some, stripO]
    congr 1
    split
    · cases hd : o.data with
      | none => simp
      | some d => simp [insertVer_strip]
    · rfl

theorem bstore_strip (bk : Bucket) (k : Key) (o : Obj) :
    stripB (bk.storeObj k o) = (stripB bk).storeObj k (stripO o) := by
  unfold Bucket.storeObj
  have h1 : (stripO o).data.isNone = o.data.isNone := by cases h : o.data <;> simp [stripO, h]
  have h2 : (stripO o).versions.isEmpty = o.versions.isEmpty := by cases h : o.versions <;> simp [stripO, h]
  rw [h1, h2]
  split
  · simp [stripB, mapV_erase]
  · simp [stripB, mapV_insert]

theorem brm_strip (bk : Bucket) (k : Key) (fresh : Nat) :
    stripB (bk.rm k fresh).1 = ((stripB bk).rm k fresh).1 ∧ (bk.rm k fresh).2 = ((stripB bk).rm k fresh).2 := by
  unfold Bucket.rm
  rw [find_stripB]
  cases hf : SMap.find bk.objects k with
  | none => simp
  | some o =>
    simp only [Option.map_some]
    have hv : (stripB bk).versioning = bk.versioning := rfl
    rw [hv]
    split
    · exact ⟨by rw [bput_strip]; rfl, rfl⟩
    · have hp : (Obj.promote ⟨none, (stripO o).versions⟩) = stripO (Obj.promote ⟨none, o.versions⟩) := by
        rw [← promote_strip]; rfl
      simp only [hp]
      cases hd : (Obj.promote ⟨none, o.versions⟩).data with
      | none => simp [stripO, hd, stripB, mapV_erase]
      | some d => simp [stripO, hd, stripB, mapV_insert]

macro "triv" : tactic => `(tactic| first | rfl | trivial | simp)

def mapR {α β : Type} (f : α → β) : Res α → Res β
  | .ok a => .ok (f a)
  | .err c => .err c
  | .panic s => .panic s

theorem find_id_strip (vs : List Ver) (vid : Nat) :
    (vs.map stripV).find? (·.id == vid) = (vs.find? (·.id == vid)).map stripV := by
  induction vs with
  | nil => rfl
  | cons w ws ih =>
    simp only [List.map_cons, List.find?_cons, stripV_id]
    split
    · rfl
    · exact ih

theorem filter_id_strip (vs : List Ver) (vid : Nat) :
    (vs.map stripV).filter (fun w => !(w.id == vid)) = (vs.filter (fun w => !(w.id == vid))).map stripV := by
  induction vs with
  | nil => rfl
  | cons w ws ih =>
    simp only [List.map_cons, List.filter_cons, stripV_id]
    by_cases h : (!(w.id == vid)) = true
    · simp only [h, if_true, List.map_cons, ih]
    · simp only [h, if_false, ih]; rfl

theorem objectVersion_strip (bk : Bucket) (k : Key) (vid : Nat) :
    (stripB bk).objectVersion k vid = mapR stripV (bk.objectVersion k vid) := by
  unfold Bucket.objectVersion
  rw [find_stripB]
  cases hf : SMap.find bk.objects k with
  | none => rfl
  | some o =>
    simp only [Option.map_some, stripO]
    cases hd : o.data with
    | none =>
      simp only [Option.map_none, find_id_strip]
      cases o.versions.find? (·.id == vid) <;> rfl
    | some d =>
      simp only [Option.map_some, stripV_id, find_id_strip]
      split
      · rfl
      · cases o.versions.find? (·.id == vid) <;> rfl

theorem brmVersion_strip (bk : Bucket) (k : Key) (vid : Nat) :
    stripB (bk.rmVersion k vid).1 = ((stripB bk).rmVersion k vid).1 ∧
    (bk.rmVersion k vid).2 = ((stripB bk).rmVersion k vid).2 := by
  unfold Bucket.rmVersion
  rw [find_stripB]
  cases hf : SMap.find bk.objects k with
  | none => exact ⟨rfl, by triv⟩
  | some o =>
    simp only [Option.map_some]
    cases hd : o.data with
    | none =>
      simp only [stripO, hd, Option.map_none, find_id_strip]
      cases hfv : o.versions.find? (·.id == vid) with
      | none => simp only [Option.map_none]; exact ⟨by rw [bstore_strip]; simp [stripO, hd], by triv⟩
      | some v =>
        simp only [Option.map_some, stripV_marker]
        exact ⟨by rw [bstore_strip]; simp [stripO, hd, filter_id_strip], by triv⟩
    | some d =>
      simp only [stripO, hd, Option.map_some, stripV_id, find_id_strip]
      by_cases hdi : (d.id == vid) = true
      · simp only [hdi, if_true, stripV_marker]
        refine ⟨?_, by triv⟩
        rw [bstore_strip, ← promote_strip]
        simp [stripO]
      · simp only [hdi, Bool.false_eq_true, if_false]
        cases hfv : o.versions.find? (·.id == vid) with
        | none => simp only [Option.map_none]; exact ⟨by rw [bstore_strip]; simp [stripO, hd], by triv⟩
        | some v =>
          simp only [Option.map_some, stripV_marker]
          exact ⟨by rw [bstore_strip]; simp [stripO, hd, filter_id_strip], by triv⟩

/-! ### store level -/

theorem find_strip (m : Mem) (b : Bytes) : SMap.find (strip m).buckets b = (SMap.find m.buckets b).map stripB := by
  simp [strip, find_mapV]

/-- reads: a stripped store answers with the stripped version -/
theorem get_strip (m : Mem) (b : Bytes) (k : Key) : (strip m).get b k = mapR stripV (m.get b k) := by
  unfold Mem.get Mem.current
  rw [find_strip]
  cases hb : SMap.find m.buckets b with
  | none => rfl
  | some bk =>
    simp only [Option.map_some, find_stripB]
    cases ho : SMap.find bk.objects k with
    | none => rfl
    | some o =>
      simp only [Option.map_some, stripO]
      cases hd : o.data with
      | none => rfl
      | some d =>
        simp only [Option.map_some, stripV_marker]
        by_cases hm : d.marker = true <;> simp [hm, mapR]

theorem getVersion_strip (m : Mem) (b : Bytes) (k : Key) (vid : Nat) :
    (strip m).getVersion b k vid = mapR stripV (m.getVersion b k vid) := by
  unfold Mem.getVersion
  rw [find_strip]
  cases hb : SMap.find m.buckets b with
  | none => rfl
  | some bk => simp only [Option.map_some]; exact objectVersion_strip bk k vid

theorem delete_strip (m : Mem) (b : Bytes) (k : Key) :
    strip (m.delete b k).1 = ((strip m).delete b k).1 ∧ (m.delete b k).2 = ((strip m).delete b k).2 := by
  unfold Mem.delete
  rw [find_strip]
  cases hb : SMap.find m.buckets b with
  | none => exact ⟨rfl, rfl⟩
  | some bk =>
    simp only [Option.map_some]
    obtain ⟨h1, h2⟩ := brm_strip bk k (m.nextVer + 1)
    have hn : (strip m).nextVer = m.nextVer := rfl
    have ht : (stripB bk).rm k (m.nextVer + 1) = (stripB (bk.rm k (m.nextVer + 1)).1, (bk.rm k (m.nextVer + 1)).2) :=
      Prod.ext h1.symm h2.symm
    rw [hn, ht]
    exact ⟨by simp [strip, mapV_insert], rfl⟩

theorem deleteVersion_strip (m : Mem) (b : Bytes) (k : Key) (vid : Nat) :
    strip (m.deleteVersion b k vid).1 = ((strip m).deleteVersion b k vid).1 ∧
    (m.deleteVersion b k vid).2 = ((strip m).deleteVersion b k vid).2 := by
  unfold Mem.deleteVersion
  rw [find_strip]
  cases hb : SMap.find m.buckets b with
  | none => exact ⟨rfl, rfl⟩
  | some bk =>
    simp only [Option.map_some]
    obtain ⟨h1, h2⟩ := brmVersion_strip bk k vid
    have ht : (stripB bk).rmVersion k vid = (stripB (bk.rmVersion k vid).1, (bk.rmVersion k vid).2) :=
      Prod.ext h1.symm h2.symm
    rw [ht]
    exact ⟨by simp [strip, mapV_insert], rfl⟩

theorem createBucket_strip (m : Mem) (b : Bytes) :
    strip (m.createBucket b).1 = ((strip m).createBucket b).1 ∧ (m.createBucket b).2 = ((strip m).createBucket b).2 := by
  unfold Mem.createBucket
  rw [find_strip]
  cases hb : SMap.find m.buckets b with
  | none =>
    simp only [Option.map_none, Option.isSome_none, Bool.false_eq_true, if_false]
    exact ⟨by simp only [strip, mapV_insert]; rfl, by triv⟩
  | some bk => simp

theorem deleteBucket_strip (m : Mem) (b : Bytes) :
    strip (m.deleteBucket b).1 = ((strip m).deleteBucket b).1 ∧ (m.deleteBucket b).2 = ((strip m).deleteBucket b).2 := by
  unfold Mem.deleteBucket
  rw [find_strip]
  cases hb : SMap.find m.buckets b with
  | none => exact ⟨rfl, rfl⟩
  | some bk =>
    simp only [Option.map_some]
    have : (stripB bk).objects.isEmpty = bk.objects.isEmpty := by simp [stripB, isEmpty_mapV]
    rw [this]
    split
    · exact ⟨rfl, rfl⟩
    · exact ⟨by simp [strip, mapV_erase], rfl⟩

theorem setVersioning_strip (m : Mem) (b : Bytes) (e : Bool) :
    strip (m.setVersioning b e).1 = ((strip m).setVersioning b e).1 ∧ (m.setVersioning b e).2 = ((strip m).setVersioning b e).2 := by
  unfold Mem.setVersioning
  rw [find_strip]
  cases hb : SMap.find m.buckets b with
  | none => exact ⟨rfl, rfl⟩
  | some bk => simp [strip, mapV_insert, stripB]

theorem stripO_idem (o : Obj) : stripO (stripO o) = stripO o := by
  simp [stripO, Option.map_map, List.map_map, Function.comp_def]

theorem mapV_mapV {α β γ : Type} (f : β → γ) (g : α → β) (m : SMap α) : mapV f (mapV g m) = mapV (fun x => f (g x)) m := by
  simp [mapV, List.map_map, Function.comp_def]

theorem mapV_congr {α β : Type} (f g : α → β) (m : SMap α) (h : ∀ x, f x = g x) : mapV f m = mapV g m := by
  have : f = g := funext h
  rw [this]

theorem stripB_idem (bk : Bucket) : stripB (stripB bk) = stripB bk := by
  simp only [stripB, mapV_mapV]
  congr 1
  exact mapV_congr _ _ _ stripO_idem

theorem strip_idem (m : Mem) : strip (strip m) = strip m := by
  simp only [strip, mapV_mapV]
  congr 1
  exact mapV_congr _ _ _ stripB_idem

/-- the commit step of an upload, whatever metadata it carries, against the commit step on the
    stripped store with any other metadata -/
theorem putCommit_strip (md5 : Bytes → Bytes) (m : Mem) (b : Bytes) (k : Key) (md' md'' : Meta) (body : Bytes) :
    strip (m.putCommit md5 b k md' body).1 = strip ((strip m).putCommit md5 b k md'' body).1 ∧
    (m.putCommit md5 b k md' body).2 = ((strip m).putCommit md5 b k md'' body).2 := by
  unfold Mem.putCommit
  rw [find_strip]
  cases hb : SMap.find m.buckets b with
  | none => exact ⟨(strip_idem m).symm, rfl⟩
  | some bk =>
    simp only [Option.map_some]
    refine ⟨?_, rfl⟩
    have hn : (strip m).nextVer = m.nextVer := rfl
    simp only [strip, mapV_insert, bput_strip, mapV_mapV, stripB_idem]
    rfl

/-- uploading atomically (`Mem.put`: merge and commit in one step) against the split upload -/
theorem put_strip (md5 : Bytes → Bytes) (m : Mem) (b : Bytes) (k : Key) (md md' : Meta) (body : Bytes) :
    strip (m.put md5 b k md body).1 = strip ((strip m).putCommit md5 b k md' body).1 ∧
    (m.put md5 b k md body).2 = ((strip m).putCommit md5 b k md' body).2 := by
  unfold Mem.put
  exact putCommit_strip md5 m b k _ _ body

/-! ### listings do not look at metadata -/

theorem skipCovered_strip (p : Prefix) (last : Bytes) : ∀ (objs : List (Key × Obj)) (nm : Bytes),
    skipCovered p last (mapV stripO objs) nm = skipCovered p last objs nm := by
  intro objs
  induction objs with
  | nil => intro nm; rfl
  | cons q rest ih =>
    intro nm
    obtain ⟨k, o⟩ := q
    simp only [mapV, List.map_cons, skipCovered]
    cases hd : o.data with
    | none => simp [stripO, hd]
    | some d =>
      simp only [stripO, hd, Option.map_some]
      have hrest : (List.map (fun p : Key × Obj => (p.fst, ({ data := Option.map stripV p.snd.data, versions := List.map stripV p.snd.versions } : Obj))) rest) = mapV stripO rest := rfl
      rw [hrest]
      cases hm : p.match_ k with
      | none => rfl
      | some r =>
        obtain ⟨cp, mp⟩ := r
        cases cp with
        | false => rfl
        | true =>
          simp only
          split
          · exact ih k
          · rfl

theorem listLoop_strip (p : Prefix) (mk : Int) : ∀ (objs : List (Key × Obj)) (cnt : Int) (last : Bytes) (acc : ObjectList),
    listLoop p mk (mapV stripO objs) cnt last acc = listLoop p mk objs cnt last acc := by
  intro objs
  induction objs with
  | nil => intro cnt last acc; rfl
  | cons q rest ih =>
    intro cnt last acc
    obtain ⟨k, o⟩ := q
    simp only [mapV, List.map_cons, listLoop]
    cases hd : o.data with
    | none => simp [stripO, hd]
    | some d =>
      simp only [stripO, hd, Option.map_some]
      have hrest : (List.map (fun p : Key × Obj => (p.fst, ({ data := Option.map stripV p.snd.data, versions := List.map stripV p.snd.versions } : Obj))) rest) = mapV stripO rest := rfl
      have hse : (mapV stripO rest).isEmpty = rest.isEmpty := by cases rest <;> rfl
      rw [hrest]
      cases hm : p.match_ k with
      | none => simp only; exact ih cnt last acc
      | some r =>
        obtain ⟨cp, mp⟩ := r
        simp only [stripV, hse, ih, skipCovered_strip]

theorem afterMarker_strip (objs : List (Key × Obj)) (marker : Bytes) :
    afterMarker (mapV stripO objs) marker = mapV stripO (afterMarker objs marker) := by
  unfold afterMarker
  split
  · rfl
  · simp only [mapV, List.filter_map]
    rfl

/-- the object listing of the stripped store is the listing of the store -/
theorem listBucket_strip (m : Mem) (b : Bytes) (p : Prefix) (marker : Bytes) (mk : Int) :
    (strip m).listBucket b p marker mk = m.listBucket b p marker mk := by
  unfold Mem.listBucket
  rw [find_strip]
  cases SMap.find m.buckets b with
  | none => rfl
  | some bk =>
    simp only [Option.map_some, stripB]
    rw [afterMarker_strip, listLoop_strip]

/-! ### version listings do not look at metadata either -/

def sv (x : Ver × Bool) : Ver × Bool := (stripV x.1, x.2)

theorem allVersions_strip (o : Obj) : (stripO o).allVersions = o.allVersions.map sv := by
  unfold Obj.allVersions stripO sv
  cases o.data <;> simp [List.map_append, List.map_map, Function.comp_def]

theorem dropWhile_strip (vs : List Ver) (vid : Nat) :
    (vs.map stripV).dropWhile (fun v => v.id < vid) = (vs.dropWhile (fun v => v.id < vid)).map stripV := by
  induction vs with
  | nil => rfl
  | cons v rest ih =>
    simp only [List.map_cons, List.dropWhile_cons]
    have : (stripV v).id = v.id := rfl
    rw [this]
    split
    · exact ih
    · rfl

theorem versionsFrom_strip (o : Obj) (vid : Nat) : (stripO o).versionsFrom vid = (o.versionsFrom vid).map (List.map sv) := by
  unfold Obj.versionsFrom
  have h1 : (stripO o).versions = o.versions.map stripV := rfl
  have h2 : (stripO o).data = o.data.map stripV := rfl
  rw [h1, h2, dropWhile_strip]
  cases hd : o.versions.dropWhile (fun v => v.id < vid) with
  | cons v rest =>
    simp only [List.map_cons, Option.map_some]
    cases o.data <;> simp [sv, List.map_append, List.map_map, Function.comp_def]
  | nil =>
    simp only [List.map_nil]
    cases o.data with
    | none => rfl
    | some d =>
      simp only [Option.map_some]
      have : (stripV d).id = d.id := rfl
      rw [this]
      split <;> simp [sv]

theorem verLoopInner_strip (k : Key) (masked : Bool) (mk : Int) : ∀ (vs : List (Ver × Bool)) (cnt : Int) (acc : List VerEntry),
    verLoopInner k masked mk (vs.map sv) cnt acc = verLoopInner k masked mk vs cnt acc := by
  intro vs
  induction vs with
  | nil => intro cnt acc; rfl
  | cons x rest ih =>
    intro cnt acc
    obtain ⟨v, c⟩ := x
    simp only [List.map_cons, sv, verLoopInner, stripV]
    have hh : (List.map sv rest).head?.map (·.1.id) = rest.head?.map (·.1.id) := by
      cases rest with
      | nil => rfl
      | cons y ys => simp [sv, stripV]
    rw [hh, ih]

theorem nextMatching_strip (p : Prefix) : ∀ objs : List (Key × Obj), nextMatching p (mapV stripO objs) = nextMatching p objs := by
  intro objs
  induction objs with
  | nil => rfl
  | cons q rest ih =>
    obtain ⟨k, o⟩ := q
    have hm : mapV stripO ((k, o) :: rest) = (k, stripO o) :: mapV stripO rest := rfl
    rw [hm]
    simp only [nextMatching]
    cases p.match_ k with
    | none => exact ih
    | some r =>
      simp only [allVersions_strip]
      cases ho : o.allVersions with
      | nil => simpa using ih
      | cons y ys => simp [sv, stripV]

theorem verLoop_strip (p : Prefix) (masked : Bool) (mk : Int) (km : Bytes) (vm : Option Nat) :
    ∀ (objs : List (Key × Obj)) (cnt : Int) (acc : VersionList),
      verLoop p masked mk km vm (mapV stripO objs) cnt acc = verLoop p masked mk km vm objs cnt acc := by
  intro objs
  induction objs with
  | nil => intro cnt acc; rfl
  | cons q rest ih =>
    intro cnt acc
    obtain ⟨k, o⟩ := q
    have hm : mapV stripO ((k, o) :: rest) = (k, stripO o) :: mapV stripO rest := rfl
    rw [hm]
    simp only [verLoop]
    cases hmt : p.match_ k with
    | none => exact ih cnt acc
    | some r =>
      obtain ⟨cp, mp⟩ := r
      cases cp with
      | true => exact ih cnt _
      | false =>
        simp only
        cases vm with
        | none => simp only [allVersions_strip, verLoopInner_strip, nextMatching_strip, ih]
        | some vid =>
          by_cases hk : (k == km) = true
          · simp only [hk, if_true, versionsFrom_strip]
            cases o.versionsFrom vid with
            | none => rfl
            | some vs => simp only [Option.map_some, verLoopInner_strip, nextMatching_strip, ih]
          · simp only [hk, Bool.false_eq_true, if_false, allVersions_strip, verLoopInner_strip, nextMatching_strip, ih]

theorem filter_strip (objs : List (Key × Obj)) (f : Key → Bool) :
    (mapV stripO objs).filter (fun q => f q.1) = mapV stripO (objs.filter (fun q => f q.1)) := by
  simp only [mapV, List.filter_map]
  rfl

/-- the version listing of the stripped store is the version listing of the store -/
theorem listVersions_strip (m : Mem) (b : Bytes) (p : Prefix) (km : Bytes) (vm : Option Nat) (mk : Int) :
    (strip m).listVersions b p km vm mk = m.listVersions b p km vm mk := by
  unfold Mem.listVersions
  rw [find_strip]
  cases SMap.find m.buckets b with
  | none => rfl
  | some bk =>
    simp only [Option.map_some, stripB]
    split
    · exact verLoop_strip p _ mk [] none bk.objects 0 _
    · cases p.match_ km with
      | none => rfl
      | some r =>
        simp only
        rw [filter_strip bk.objects (fun k => !Bytes.lt k km)]
        exact verLoop_strip p _ mk km vm _ 0 _

/-- a multi-delete commutes with `strip`, with the same answer -/
theorem deleteFold_strip (b : Bytes) (ks : List Key) : ∀ m1 m2 : Mem, strip m1 = strip m2 →
    strip (ks.foldl (fun acc k => (Mem.delete acc b k).1) m1) = strip (ks.foldl (fun acc k => (Mem.delete acc b k).1) m2) := by
  induction ks with
  | nil => intro m1 m2 h; exact h
  | cons k ks ih =>
    intro m1 m2 h
    simp only [List.foldl_cons]
    apply ih
    obtain ⟨a1, _⟩ := delete_strip m1 b k
    obtain ⟨a2, _⟩ := delete_strip m2 b k
    rw [a1, a2, h]

theorem deleteMulti_strip (m : Mem) (b : Bytes) (ks : List Key) :
    strip (m.deleteMulti b ks).1 = strip ((strip m).deleteMulti b ks).1 ∧ (m.deleteMulti b ks).2 = ((strip m).deleteMulti b ks).2 := by
  unfold Mem.deleteMulti
  rw [find_strip]
  cases SMap.find m.buckets b with
  | none => exact ⟨(strip_idem m).symm, rfl⟩
  | some bk =>
    simp only [Option.map_some]
    exact ⟨deleteFold_strip b ks m (strip m) (strip_idem m).symm, trivial⟩

/-! ### schedules -/

/-- the operations the memory backend runs in one lock region -/
inductive AOp where
  | get (b : Bytes) (k : Key)
  | getVersion (b : Bytes) (k : Key) (vid : Nat)
  | delete (b : Bytes) (k : Key)
  | deleteVersion (b : Bytes) (k : Key) (vid : Nat)
  | createBucket (b : Bytes)
  | deleteBucket (b : Bytes)
  | setVersioning (b : Bytes) (enabled : Bool)
  | list (b : Bytes) (p : Prefix) (marker : Bytes) (maxKeys : Int)
  | listVersions (b : Bytes) (p : Prefix) (keyMarker : Bytes) (verMarker : Option Nat) (maxKeys : Int)
  | deleteMulti (b : Bytes) (ks : List Key)

/-- what a client observes, metadata aside: body, length (of the body), ETag, version id, delete
    marker flag; error codes; the version id an upload was given -/
inductive Obs where
  | ver (r : Res Ver)
  | del (r : Res (Bool × Option Nat))
  | unit (r : Res Unit)
  | put (r : Res (Option Nat))
  | listing (r : Res ObjectList)
  | versions (r : Res VersionList)
  | multi (r : Res (List Key))
  | silent
deriving DecidableEq

def aop (m : Mem) : AOp → Mem × Obs
  | .get b k => (m, .ver (mapR stripV (m.get b k)))
  | .getVersion b k vid => (m, .ver (mapR stripV (m.getVersion b k vid)))
  | .delete b k => ((m.delete b k).1, .del (m.delete b k).2)
  | .deleteVersion b k vid => ((m.deleteVersion b k vid).1, .del (m.deleteVersion b k vid).2)
  | .createBucket b => ((m.createBucket b).1, .unit (m.createBucket b).2)
  | .deleteBucket b => ((m.deleteBucket b).1, .unit (m.deleteBucket b).2)
  | .setVersioning b e => ((m.setVersioning b e).1, .unit (m.setVersioning b e).2)
  | .list b p marker mk => (m, .listing (m.listBucket b p marker mk))
  | .listVersions b p km vm mk => (m, .versions (m.listVersions b p km vm mk))
  | .deleteMulti b ks => ((m.deleteMulti b ks).1, .multi (m.deleteMulti b ks).2)

theorem mapR_stripV_idem (r : Res Ver) : mapR stripV (mapR stripV r) = mapR stripV r := by
  cases r <;> rfl

/-- every atomic operation commutes with `strip` and answers the same on the stripped store -/
theorem aop_strip (m : Mem) (op : AOp) :
    strip (aop m op).1 = strip (aop (strip m) op).1 ∧ (aop m op).2 = (aop (strip m) op).2 := by
  cases op with
  | get b k => exact ⟨(strip_idem m).symm, by simp [aop, get_strip, mapR_stripV_idem]⟩
  | getVersion b k vid => exact ⟨(strip_idem m).symm, by simp [aop, getVersion_strip, mapR_stripV_idem]⟩
  | delete b k =>
    obtain ⟨h1, h2⟩ := delete_strip m b k
    obtain ⟨g1, _⟩ := delete_strip (strip m) b k
    simp only [aop]
    refine ⟨?_, by rw [h2]⟩
    rw [h1, g1, strip_idem]
  | deleteVersion b k vid =>
    obtain ⟨h1, h2⟩ := deleteVersion_strip m b k vid
    obtain ⟨g1, _⟩ := deleteVersion_strip (strip m) b k vid
    simp only [aop]
    refine ⟨?_, by rw [h2]⟩
    rw [h1, g1, strip_idem]
  | createBucket b =>
    obtain ⟨h1, h2⟩ := createBucket_strip m b
    obtain ⟨g1, _⟩ := createBucket_strip (strip m) b
    simp only [aop]
    refine ⟨?_, by rw [h2]⟩
    rw [h1, g1, strip_idem]
  | deleteBucket b =>
    obtain ⟨h1, h2⟩ := deleteBucket_strip m b
    obtain ⟨g1, _⟩ := deleteBucket_strip (strip m) b
    simp only [aop]
    refine ⟨?_, by rw [h2]⟩
    rw [h1, g1, strip_idem]
  | setVersioning b e =>
    obtain ⟨h1, h2⟩ := setVersioning_strip m b e
    obtain ⟨g1, _⟩ := setVersioning_strip (strip m) b e
    simp only [aop]
    refine ⟨?_, by rw [h2]⟩
    rw [h1, g1, strip_idem]
  | list b p marker mk => exact ⟨(strip_idem m).symm, by simp [aop, listBucket_strip]⟩
  | listVersions b p km vm mk => exact ⟨(strip_idem m).symm, by simp [aop, listVersions_strip]⟩
  | deleteMulti b ks =>
    obtain ⟨h1, h2⟩ := deleteMulti_strip m b ks
    obtain ⟨g1, _⟩ := deleteMulti_strip (strip m) b ks
    simp only [aop]
    refine ⟨?_, by rw [h2]⟩
    rw [h1, g1, strip_idem]

/-- congruence: stores that agree after `strip` stay so under every atomic operation, with the
    same observation -/
theorem aop_congr (m1 m2 : Mem) (op : AOp) (h : strip m1 = strip m2) :
    strip (aop m1 op).1 = strip (aop m2 op).1 ∧ (aop m1 op).2 = (aop m2 op).2 := by
  obtain ⟨a1, a2⟩ := aop_strip m1 op
  obtain ⟨b1, b2⟩ := aop_strip m2 op
  rw [a1, a2, b1, b2, h]
  exact ⟨rfl, rfl⟩

theorem putCommit_congr (md5 : Bytes → Bytes) (m1 m2 : Mem) (b : Bytes) (k : Key) (md1 md2 : Meta) (body : Bytes)
    (h : strip m1 = strip m2) :
    strip (m1.putCommit md5 b k md1 body).1 = strip (m2.putCommit md5 b k md2 body).1 ∧
    (m1.putCommit md5 b k md1 body).2 = (m2.putCommit md5 b k md2 body).2 := by
  obtain ⟨a1, a2⟩ := putCommit_strip md5 m1 b k md1 [] body
  obtain ⟨b1, b2⟩ := putCommit_strip md5 m2 b k md2 [] body
  rw [a1, a2, b1, b2, h]
  exact ⟨rfl, rfl⟩

/-- a step of a schedule -/
inductive Act where
  | merge (tid : Nat) (b : Bytes) (k : Key) (md : Meta)   -- an upload reads the existing metadata (read lock, released)
  | commit (tid : Nat) (body : Bytes)                      -- the same upload stores its object (write lock)
  | atomic (op : AOp)

structure Pend where
  tid    : Nat
  b      : Bytes
  k      : Key
  md     : Meta     -- the headers the client sent
  merged : Meta     -- what the merge step computed from the store it saw

/-- the code: the commit step uses the metadata merged at the (earlier) merge step -/
def cstep (md5 : Bytes → Bytes) (s : Mem × List Pend) : Act → (Mem × List Pend) × Obs
  | .merge t b k md => ((s.1, ⟨t, b, k, md, s.1.mergedMeta b k md⟩ :: s.2.filter (fun p => !(p.tid == t))), .silent)
  | .commit t body =>
    match s.2.find? (fun p => p.tid == t) with
    | none => (s, .silent)
    | some p => (((s.1.putCommit md5 p.b p.k p.merged body).1, s.2.filter (fun q => !(q.tid == t))),
                 .put (s.1.putCommit md5 p.b p.k p.merged body).2)
  | .atomic op => (((aop s.1 op).1, s.2), (aop s.1 op).2)

/-- the reference: the whole upload (merge and commit) happens atomically at its commit step -/
def rstep (md5 : Bytes → Bytes) (s : Mem × List Pend) : Act → (Mem × List Pend) × Obs
  | .merge t b k md => ((s.1, ⟨t, b, k, md, []⟩ :: s.2.filter (fun p => !(p.tid == t))), .silent)
  | .commit t body =>
    match s.2.find? (fun p => p.tid == t) with
    | none => (s, .silent)
    | some p => (((s.1.put md5 p.b p.k p.md body).1, s.2.filter (fun q => !(q.tid == t))),
                 .put (s.1.put md5 p.b p.k p.md body).2)
  | .atomic op => (((aop s.1 op).1, s.2), (aop s.1 op).2)

def run (step : (Mem × List Pend) → Act → (Mem × List Pend) × Obs) (s : Mem × List Pend) : List Act → (Mem × List Pend) × List Obs
  | [] => (s, [])
  | a :: as => let r := step s a; let rest := run step r.1 as; (rest.1, r.2 :: rest.2)

/-- the pending uploads of the two machines name the same requests -/
def SameReq (p q : Pend) : Prop := p.tid = q.tid ∧ p.b = q.b ∧ p.k = q.k ∧ p.md = q.md

inductive AllSame : List Pend → List Pend → Prop where
  | nil : AllSame [] []
  | cons {p q : Pend} {l1 l2 : List Pend} (h : SameReq p q) (t : AllSame l1 l2) : AllSame (p :: l1) (q :: l2)

theorem forall2_filter (t : Nat) (l1 l2 : List Pend) (h : AllSame l1 l2) :
    AllSame (l1.filter (fun p => !(p.tid == t))) (l2.filter (fun p => !(p.tid == t))) := by
  induction h with
  | nil => exact .nil
  | @cons p q l1 l2 hpq _ ih =>
    simp only [List.filter_cons, hpq.1]
    split
    · exact .cons hpq ih
    · exact ih

theorem forall2_find (t : Nat) (l1 l2 : List Pend) (h : AllSame l1 l2) :
    (l1.find? (fun p => p.tid == t) = none ∧ l2.find? (fun p => p.tid == t) = none) ∨
    ∃ p q, l1.find? (fun p => p.tid == t) = some p ∧ l2.find? (fun p => p.tid == t) = some q ∧ SameReq p q := by
  induction h with
  | nil => exact Or.inl ⟨rfl, rfl⟩
  | @cons p q l1 l2 hpq _ ih =>
    simp only [List.find?_cons, hpq.1]
    split
    · exact Or.inr ⟨p, q, rfl, rfl, hpq⟩
    · exact ih

def Rel (sc sr : Mem × List Pend) : Prop := strip sc.1 = strip sr.1 ∧ AllSame sc.2 sr.2

theorem step_sim (md5 : Bytes → Bytes) (sc sr : Mem × List Pend) (a : Act) (h : Rel sc sr) :
    Rel (cstep md5 sc a).1 (rstep md5 sr a).1 ∧ (cstep md5 sc a).2 = (rstep md5 sr a).2 := by
  obtain ⟨hs, hp⟩ := h
  cases a with
  | merge t b k md =>
    exact ⟨⟨hs, .cons ⟨rfl, rfl, rfl, rfl⟩ (forall2_filter t _ _ hp)⟩, rfl⟩
  | commit t body =>
    simp only [cstep, rstep]
    rcases forall2_find t _ _ hp with ⟨h1, h2⟩ | ⟨p, q, h1, h2, hpq⟩
    · rw [h1, h2]; exact ⟨⟨hs, hp⟩, rfl⟩
    · rw [h1, h2]
      obtain ⟨e1, e2, e3, e4⟩ := hpq
      simp only [Mem.put, ← e2, ← e3, ← e4]
      obtain ⟨c1, c2⟩ := putCommit_congr md5 sc.1 sr.1 p.b p.k p.merged (sr.1.mergedMeta p.b p.k p.md) body hs
      exact ⟨⟨c1, forall2_filter t _ _ hp⟩, by rw [c2]⟩
  | atomic op =>
    obtain ⟨c1, c2⟩ := aop_congr sc.1 sr.1 op hs
    exact ⟨⟨c1, hp⟩, c2⟩

/-- **schedule_linearizes**: take ANY schedule — any number of uploads, each split into its
    unlocked metadata read and its commit, interleaved in any order with each other and with any
    reads, deletes, version deletes, bucket operations and versioning changes.  Running the code's
    steps, and running the reference in which every upload happens atomically at its commit step,
    give the same answer to every request (bodies, ETags, version ids, delete-marker flags, error
    codes, the version id given to each upload) and end in stores that agree on every body,
    length, ETag, version id, delete marker, archived version, versioning status and on the id
    counter.  So every execution the lock structure of the code permits is equivalent, on
    everything C07 names, to the sequential execution in commit order — which respects real time,
    since a commit step lies between its request's invocation and response. -/
theorem schedule_linearizes (md5 : Bytes → Bytes) (acts : List Act) :
    ∀ (sc sr : Mem × List Pend), Rel sc sr →
      (run (cstep md5) sc acts).2 = (run (rstep md5) sr acts).2 ∧
      Rel (run (cstep md5) sc acts).1 (run (rstep md5) sr acts).1 := by
  induction acts with
  | nil => intro sc sr h; exact ⟨rfl, h⟩
  | cons a as ih =>
    intro sc sr h
    obtain ⟨h1, h2⟩ := step_sim md5 sc sr a h
    obtain ⟨g1, g2⟩ := ih _ _ h1
    simp only [run]
    exact ⟨by rw [h2, g1], g2⟩

theorem schedule_linearizes_from (md5 : Bytes → Bytes) (m : Mem) (acts : List Act) :
    (run (cstep md5) (m, []) acts).2 = (run (rstep md5) (m, []) acts).2 ∧
    strip (run (cstep md5) (m, []) acts).1.1 = strip (run (rstep md5) (m, []) acts).1.1 := by
  obtain ⟨h1, h2, _⟩ := schedule_linearizes md5 acts (m, []) (m, []) ⟨rfl, .nil⟩
  exact ⟨h1, h2⟩

/-! Non-vacuity: two uploads to one key whose merge reads both precede both commits (the second
    commit's metadata was merged from a store that did not yet hold the first upload): the code
    and the reference end in different stores (the metadata differ) and the same `strip`. -/
def exM : Mem := ⟨[([98], ⟨.enabled, []⟩)], 0⟩
def exActs : List Act := [.merge 1 [98] [107] [([120], [1])], .merge 2 [98] [107] [([121], [2])],
  .commit 1 [65], .commit 2 [66], .atomic (.get [98] [107]), .atomic (.getVersion [98] [107] 1)]
example : (run (cstep id) (exM, []) exActs).1.1.buckets ≠ (run (rstep id) (exM, []) exActs).1.1.buckets := by decide
example : (run (cstep id) (exM, []) exActs).2 =
    [.silent, .silent, .put (.ok (some 1)), .put (.ok (some 2)), .ver (.ok ⟨2, false, [66], [66], []⟩), .ver (.ok ⟨1, false, [65], [65], []⟩)] := by
  decide

end GFS.Props.C07S
