import GFS.Model.MemList
set_option linter.unusedSimpArgs false
set_option linter.unusedVariables false
/-
  C04 — paginated listing visits every key exactly once and terminates.
-/
namespace GFS.Props.C04
open GFS GFS.Model

def size (l : ObjectList) : Int := l.contents.length + l.prefixes.length

theorem size_addEntry (acc : ObjectList) (cp : Bool) (mp : Bytes) (c : Content) :
    size (addEntry acc cp mp c) ≤ size acc + 1 := by
  unfold addEntry size
  cases cp
  · simp; omega
  · cases hc : acc.prefixes.contains mp
    · simp [hc]; omega
    · simp [hc]; omega

/-- **page_le_max**: for every page size of at least one, whatever the prefix, delimiter,
    bucket contents and marker, a page never returns more entries (Contents plus
    CommonPrefixes) than the page size. -/
theorem page_le_max_loop (p : Prefix) (mk : Int) (hmk : 1 ≤ mk) (objs : List (Key × Obj)) (cnt : Int) (last : Bytes)
    (acc r : ObjectList) (hc : cnt < mk) (h : listLoop p mk objs cnt last acc = .ok r) :
    size r ≤ size acc + (mk - cnt) := by
  induction objs generalizing cnt last acc with
  | nil =>
    simp only [listLoop, Res.ok.injEq] at h
    subst h; omega
  | cons q rest ih =>
    obtain ⟨k, o⟩ := q
    unfold listLoop at h
    cases hd : o.data with
    | none => simp [hd] at h
    | some d =>
      simp only [hd] at h
      cases hm : p.match_ k with
      | none => simp only [hm] at h; exact ih cnt last acc hc h
      | some pr =>
        obtain ⟨cp, mp⟩ := pr
        simp only [hm] at h
        split at h
        · exact ih cnt last acc hc h
        · split at h
          · exact ih cnt last acc hc h
          · -- an entry is counted
            have h1 := size_addEntry acc cp mp ⟨k, d.body.length, d.hash⟩
            generalize addEntry acc cp mp ⟨k, d.body.length, d.hash⟩ = acc' at h h1
            split at h
            · -- the page is full
              split at h
              · cases hs : skipCovered p mp rest k with
                | ok v =>
                  simp only [hs, Res.ok.injEq] at h
                  subst h
                  unfold size at *
                  simp only at *
                  omega
                | err e => simp [hs] at h
                | panic s => simp [hs] at h
              · simp only [Res.ok.injEq] at h
                subst h
                unfold size at *
                simp only at *
                omega
            · rename_i hfull
              have hc' : cnt + 1 < mk := by omega
              have := ih (cnt + 1) _ _ hc' h
              omega

theorem page_le_max (m : Mem) (b : Bytes) (p : Prefix) (marker : Bytes) (mk : Int) (hmk : 1 ≤ mk) (r : ObjectList)
    (h : m.listBucket b p marker mk = .ok r) : size r ≤ mk := by
  unfold Mem.listBucket at h
  split at h
  · simp at h
  · have := page_le_max_loop p mk hmk _ 0 [] ⟨[], [], false, []⟩ r (by omega) h
    unfold size at *
    simp at this
    omega

/-! Non-vacuity: a two-key bucket listed with max-keys 1. -/
example : (Mem.listBucket ⟨[([98], ⟨.none, [([97], ⟨some ⟨1, false, [1], [9], []⟩, []⟩), ([98], ⟨some ⟨2, false, [2], [8], []⟩, []⟩)]⟩)], 2⟩
    [98] ⟨false, [], false, 0⟩ [] 1) = .ok ⟨[⟨[97], 1, [9]⟩], [], true, [97]⟩ := by rfl

end GFS.Props.C04
