import GFS.Props.C05R
import GFS.Props.C13L
set_option linter.unusedSimpArgs false
set_option linter.unusedVariables false
/-
  C13 over whole histories: what ListObjectVersions shows IS what the history of C05 leaves behind.
  Props/C13L relates the unpaginated listing to the store's versions; Props/C05R relates the store
  to the specification machine Spec.Versions after every allowed history.  Composed: after every
  finite sequence of uploads, plain deletes, deletes of a specific version and versioning changes
  (no write while Suspended), the listing shows, key by key, exactly the entries the specification
  holds — ids, delete-marker flags, bodies' sizes — in creation order, with IsLatest on exactly the
  newest remaining entry of each key, and no key the specification has emptied.
-/
namespace GFS.Props.C13R
open GFS GFS.Model GFS.Props.C05R GFS.Props.C13I
open GFS.Spec.Versions (VBucket entriesOf)

theorem allVersions_vers (o : Obj) : o.allVersions.map (·.1) = o.versions ++ o.data.toList := by
  unfold Obj.allVersions
  cases o.data <;> simp [List.map_append, List.map_map, Function.comp_def]

theorem map_const_false {α} (l : List α) : l.map (fun _ => false) = List.replicate l.length false := by
  induction l with
  | nil => rfl
  | cons x xs ih => simp [List.replicate_succ, ih]

/-- IsLatest is on the last entry of a key and on no other -/
theorem allVersions_flags (o : Obj) (d : Ver) (h : o.data = some d) :
    o.allVersions.map (·.2) = List.replicate o.versions.length false ++ [true] := by
  unfold Obj.allVersions
  simp [h, List.map_append, List.map_map, Function.comp_def, map_const_false]

/-- **listing_is_history**: in states related to the specification (every state an allowed history
    reaches, `C05R.versions_run_refines`), for every key: the store holds the key exactly when the
    specification has entries for it, the key's listed entries are the specification's in creation
    order, and exactly the last one is flagged IsLatest. -/
theorem listing_is_history (m : Mem) (b : Bytes) (vb : VBucket) (hm : MInv m) (hr : MRel m b vb) :
    ∃ bk, SMap.find m.buckets b = some bk ∧
      (∀ k, SMap.find bk.objects k = none → entriesOf vb k = []) ∧
      ∀ k o, SMap.find bk.objects k = some o →
        (o.allVersions.map (fun x => vproj x.1)) = (entriesOf vb k).map eproj ∧
        o.allVersions.map (·.2) = List.replicate o.versions.length false ++ [true] ∧
        entriesOf vb k ≠ [] := by
  obtain ⟨bk, hb, r⟩ := hr
  refine ⟨bk, hb, ?_, ?_⟩
  · intro k hk
    have := r.same k
    simp only [ents, hk, List.map_nil] at this
    simpa using this.symm
  · intro k o ho
    obtain ⟨d, h1, _⟩ := objB_of m b bk hm hb k o ho
    have hs := r.same k
    simp only [ents, ho] at hs
    refine ⟨?_, allVersions_flags o d h1, ?_⟩
    · rw [← hs, ← allVersions_vers, List.map_map]; rfl
    · intro he
      rw [he, h1] at hs
      simp at hs

/-- the same after every allowed history, together with the shape of the unpaginated listing -/
theorem versions_listing_after_history (md5 : Bytes → Bytes) (b : Bytes) (ops : List HOp) (m : Mem) (vb : VBucket)
    (hm : MInv m) (hr : MRel m b vb) (ha : Allowed md5 b m vb ops) (p : Prefix) :
    let m' := (run md5 b m vb ops).1
    let vb' := (run md5 b m vb ops).2
    ∃ bk, SMap.find m'.buckets b = some bk ∧
      m'.listVersions b p [] none 0 =
        .ok ⟨bk.objects.flatMap (C13L.entriesOfKey p (bk.versioning == .none)),
             C03G.addAll [] (bk.objects.filterMap (C13L.prefixOfKey p)), false, [], none⟩ ∧
      (∀ k, SMap.find bk.objects k = none → entriesOf vb' k = []) ∧
      ∀ k o, SMap.find bk.objects k = some o →
        (o.allVersions.map (fun x => vproj x.1)) = (entriesOf vb' k).map eproj ∧
        o.allVersions.map (·.2) = List.replicate o.versions.length false ++ [true] := by
  intro m' vb'
  obtain ⟨h1, h2⟩ := versions_run_refines md5 b ops m vb hm hr ha
  obtain ⟨bk, hb, hnone, hall⟩ := listing_is_history m' b vb' h1 h2
  exact ⟨bk, hb, C13L.listVersions_exact m' b bk hb p, hnone, fun k o ho => ⟨(hall k o ho).1, (hall k o ho).2.1⟩⟩

/-! Non-vacuity: the history of C05R's example; the listing of key "k" shows ids 2 and 4, 4 latest. -/
example : (Mem.listVersions (run id [98] C05R.exM ⟨.never, []⟩ C05R.exOps).1 [98] ⟨false, [], false, 0⟩ [] none 0) =
    .ok ⟨[⟨[107], some 2, false, false, 1, [2]⟩, ⟨[107], some 4, false, true, 1, [4]⟩], [], false, [], none⟩ := by decide

end GFS.Props.C13R
