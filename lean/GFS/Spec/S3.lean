import GFS.Base.SMap
import GFS.Base.Res
/-
  The reference model of S3 bucket/object semantics that C02 speaks of, short enough to
  read in a minute: a store is a map from bucket names to maps from keys to (body, metadata).
  No versions, no ids, no hashes (the ETag is a function of the body).
-/
namespace GFS.Spec.S3
open GFS

/-- what the reference model keeps of an object: its bytes (size and ETag are functions of
    them; metadata beyond the headers of the last write is not constrained, see DESIGN.md C01) -/
abbrev ObjVal := Bytes

abbrev Store := SMap (SMap ObjVal)

inductive Op where
  | createBucket (b : Bytes)
  | headBucket (b : Bytes)
  | deleteBucket (b : Bytes)
  | listBuckets
  | put (b k : Bytes) (body : Bytes)
  | get (b k : Bytes)
  | head (b k : Bytes)
  | delete (b k : Bytes)
  | deleteMulti (b : Bytes) (ks : List Bytes)
  | copy (sb sk db dk : Bytes)
deriving Repr

inductive Ans where
  | ok
  | err (c : ErrCode)
  | object (body : Bytes)         -- GET/HEAD: the object's bytes (HEAD: what they would be)
  | buckets (names : List Bytes)
deriving Repr, DecidableEq

/-- remove one key from a bucket (nothing happens if the bucket is absent) -/
def delKey (s : Store) (b k : Bytes) : Store :=
  match SMap.find s b with
  | none => s
  | some objs => SMap.insert s b (SMap.erase objs k)

def step (s : Store) : Op → Store × Ans
  | .createBucket b =>
    if (SMap.find s b).isSome then (s, .err .BucketAlreadyExists) else (SMap.insert s b [], .ok)
  | .headBucket b => if (SMap.find s b).isSome then (s, .ok) else (s, .err .NoSuchBucket)
  | .deleteBucket b =>
    match SMap.find s b with
    | none => (s, .err .NoSuchBucket)
    | some objs => if objs.isEmpty then (SMap.erase s b, .ok) else (s, .err .BucketNotEmpty)
  | .listBuckets => (s, .buckets (SMap.keys s))
  | .put b k body =>
    match SMap.find s b with
    | none => (s, .err .NoSuchBucket)
    | some objs => (SMap.insert s b (SMap.insert objs k body), .ok)
  | .get b k | .head b k =>
    match SMap.find s b with
    | none => (s, .err .NoSuchBucket)
    | some objs =>
      match SMap.find objs k with
      | none => (s, .err .NoSuchKey)
      | some o => (s, .object o)
  | .delete b k =>
    match SMap.find s b with
    | none => (s, .err .NoSuchBucket)
    | some _ => (delKey s b k, .ok)
  | .deleteMulti b ks =>
    -- a multi-object delete is the deletion of each named key
    match SMap.find s b with
    | none => (s, .err .NoSuchBucket)
    | some _ => (ks.foldl (fun acc k => delKey acc b k) s, .ok)
  | .copy sb sk db dk =>
    match SMap.find s db with
    | none => (s, .err .NoSuchBucket)
    | some dobjs =>
      match SMap.find s sb with
      | none => (s, .err .NoSuchBucket)
      | some sobjs =>
        match SMap.find sobjs sk with
        | none => (s, .err .NoSuchKey)
        | some o => (SMap.insert s db (SMap.insert dobjs dk o), .ok)

def run (s : Store) (ops : List Op) : Store × List Ans :=
  ops.foldl (fun (acc : Store × List Ans) op => let (s', a) := step acc.1 op; (s', acc.2 ++ [a])) (s, [])

end GFS.Spec.S3
