import GFS.Base.SMap
/-
  What a listing must contain, written from the statement of C03: filter by string prefix,
  keep ascending key order, and with a delimiter replace every key that has a delimiter after
  the prefix by its common prefix (prefix + segment up to and including the first delimiter),
  each common prefix once.
-/
namespace GFS.Spec.Listing
open GFS GFS.Bytes

inductive Entry where
  | content (key : Bytes)
  | cprefix (p : Bytes)
deriving Repr, DecidableEq

/-- how one live key appears in the listing for (prefix, delimiter) — or not at all -/
def entryOf (pfx : Bytes) (delim : Option UInt8) (key : Bytes) : Option Entry :=
  if !hasPrefix key pfx then none
  else match delim with
    | none => some (.content key)
    | some d =>
      let rest := key.drop pfx.length
      match indexOf d rest with
      | none => some (.content key)
      | some i => some (.cprefix (pfx ++ rest.take (i + 1)))

/-- the entries of the unpaginated listing, in key order, each common prefix once -/
def entries (pfx : Bytes) (delim : Option UInt8) (keys : List Bytes) : List Entry :=
  (keys.filterMap (entryOf pfx delim)).eraseDups

def contents (es : List Entry) : List Bytes := es.filterMap fun | .content k => some k | _ => none
def prefixes (es : List Entry) : List Bytes := es.filterMap fun | .cprefix p => some p | _ => none

end GFS.Spec.Listing
