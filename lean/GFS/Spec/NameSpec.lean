import GFS.Model.BucketName
/-
  The documented bucket naming rule, written from the statement of C17 (quantifiers over
  labels, no regular expression).
-/
namespace GFS.Spec
open GFS GFS.Bytes GFS.Model

/-- letters, digits, hyphen -/
def ldh (c : UInt8) : Bool := alnum c || c == 45

/-- a label: at least three characters drawn from lowercase letters, digits and hyphens,
    beginning and ending with a letter or digit -/
def LabelOk (l : Bytes) : Prop :=
  3 ≤ l.length ∧ (∀ c ∈ l, ldh c = true) ∧ l.head?.any alnum = true ∧ l.getLast?.any alnum = true

/-- "formatted as an IP address": a canonical dotted quad -/
def FormattedAsIP (s : Bytes) : Prop := isIPv4 s = true

/-- the rule of the statement -/
def NameOk (s : Bytes) : Prop :=
  3 ≤ s.length ∧ s.length ≤ 63 ∧ (∀ l ∈ splitOn1 46 s, LabelOk l) ∧ ¬ FormattedAsIP s

instance (s : Bytes) : Decidable (NameOk s) := by
  unfold NameOk LabelOk FormattedAsIP; exact inferInstance

end GFS.Spec
