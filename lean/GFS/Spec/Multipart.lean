import GFS.Base.SMap
/-
  Multipart assembly as the statement of C06 describes it: per upload the most recent body
  of every part number; completing an ascending list stores the concatenation of the listed
  parts' most recent bodies, with the ETag md5(md5(p1)…md5(pn)) "-" n.
-/
namespace GFS.Spec.Multipart
open GFS

structure Upload where
  id     : Nat
  bucket : Bytes
  key    : Bytes
  latest : List (Nat × Bytes)      -- part number ↦ most recent body
deriving Repr

def setLatest (u : Upload) (n : Nat) (body : Bytes) : Upload :=
  { u with latest := u.latest.filter (fun p => !(p.1 == n)) ++ [(n, body)] }

def bodyOf (u : Upload) (n : Int) : Option Bytes :=
  if n < 1 then none else (u.latest.find? (·.1 == n.toNat)).map (·.2)

def ascending : List Int → Bool
  | a :: b :: rest => decide (a ≤ b) && ascending (b :: rest)
  | _ => true

/-- `some bodies` when the request must be accepted: the list is ascending and names only
    uploaded parts with the ETag of their most recent upload (quotes ignored) -/
def accepted (md5 : Bytes → Bytes) (u : Upload) (listed : List (Int × Bytes)) : Option (List Bytes) :=
  if !ascending (listed.map (·.1)) then none
  else listed.foldr (fun (p : Int × Bytes) acc =>
    match acc, bodyOf u p.1 with
    | some bs, some body =>
      if Bytes.trim1 34 p.2 == Bytes.hexLower (md5 body) then some (body :: bs) else none
    | _, _ => none) (some [])

def assemble (bodies : List Bytes) : Bytes := bodies.flatten

def etag (md5 : Bytes → Bytes) (bodies : List Bytes) : Bytes :=
  Bytes.hexLower (md5 (bodies.map md5).flatten) ++ [45] ++ (toString bodies.length).toUTF8.toList

end GFS.Spec.Multipart
