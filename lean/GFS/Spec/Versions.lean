import GFS.Base.SMap
import GFS.Base.Res
/-
  Versioning as the statement of C05 describes it, as a machine over the history of a bucket:
  per key the list of remaining entries in creation order.  Version ids are the ones the
  implementation hands out (checked to be fresh and increasing); the specification only says
  what must remain retrievable.
-/
namespace GFS.Spec.Versions
open GFS

structure VEntry where
  id     : Nat
  marker : Bool
  body   : Bytes
  born   : Bool      -- created while versioning was Enabled
deriving Repr, DecidableEq

inductive Status where
  | never | enabled | suspended
deriving Repr, DecidableEq

structure VBucket where
  status : Status
  keys   : SMap (List VEntry)
deriving Repr

def entriesOf (b : VBucket) (k : Bytes) : List VEntry := (SMap.find b.keys k).getD []

def setKey (b : VBucket) (k : Bytes) (es : List VEntry) : VBucket :=
  { b with keys := if es.isEmpty then SMap.erase b.keys k else SMap.insert b.keys k es }

/-- an upload: while Enabled a new version is added and nothing is removed; otherwise it
    replaces the entries that were not created while Enabled, and only those -/
def put (b : VBucket) (k : Bytes) (id : Nat) (body : Bytes) : VBucket :=
  let es := entriesOf b k
  let kept := if b.status == .enabled then es else es.filter (·.born)
  setKey b k (kept ++ [⟨id, false, body, b.status == .enabled⟩])

/-- a plain delete: while Enabled it only adds a delete marker (if the key has entries);
    otherwise it removes the entries not created while Enabled, and only those -/
def delete (b : VBucket) (k : Bytes) (markerId : Nat) : VBucket :=
  let es := entriesOf b k
  if es.isEmpty then b
  else if b.status == .enabled then setKey b k (es ++ [⟨markerId, true, [], true⟩])
  else setKey b k (es.filter (·.born))

/-- deleting a specific version removes just that version -/
def deleteVersion (b : VBucket) (k : Bytes) (id : Nat) : VBucket :=
  setKey b k ((entriesOf b k).filter (fun e => !(e.id == id)))

def setStatus (b : VBucket) (enabled : Bool) : VBucket :=
  { b with status := if enabled then .enabled else if b.status == .enabled then .suspended else b.status }

/-- the most recently created remaining entry -/
def newest (b : VBucket) (k : Bytes) : Option VEntry := (entriesOf b k).getLast?

/-- unqualified read: the newest remaining version, NoSuchKey if that is a marker or nothing remains -/
def get (b : VBucket) (k : Bytes) : Res Bytes :=
  match newest b k with
  | none => .err .NoSuchKey
  | some e => if e.marker then .err .NoSuchKey else .ok e.body

/-- read by id: `ok (some body)`, `ok none` = it is a delete marker -/
def getVersion (b : VBucket) (k : Bytes) (id : Nat) : Res (Option Bytes) :=
  let es := entriesOf b k
  if es.isEmpty then .err .NoSuchKey
  else match es.find? (·.id == id) with
    | none => .err .NoSuchVersion
    | some e => .ok (if e.marker then none else some e.body)

end GFS.Spec.Versions
