import GFS.Model.Range
/-
  Specification of a single byte range clipped to the object's end, written
  from the statement of C11 (not from the code): which inclusive interval of
  byte offsets must be returned, or InvalidRange.
-/
namespace GFS.Spec
open GFS.Model

/-- `some (first,last)` inclusive, or `none` = 416 InvalidRange.
    `req.fromEnd = true` is the suffix form `-n` (n = req.end);
    `req.end = -1` with `fromEnd = false` is the open form `first-`. -/
def clip (size : Int) (req : RangeReq) : Option (Int × Int) :=
  if req.fromEnd then
    let n := req.«end»
    if 0 < n ∧ n ≤ size then some (size - n, size - 1) else none
  else if req.«end» = RangeNoEnd then
    if 0 ≤ req.start ∧ req.start < size then some (req.start, size - 1) else none
  else
    if 0 ≤ req.start ∧ req.start ≤ req.«end» ∧ req.start < size then
      some (req.start, min req.«end» (size - 1))
    else none

/-- (start,length) presentation of `clip` -/
def clipSL (size : Int) (req : RangeReq) : Option (Int × Int) :=
  (clip size req).map fun (f, l) => (f, l - f + 1)

end GFS.Spec
