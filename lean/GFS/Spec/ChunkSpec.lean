import GFS.Model.Chunk
/-
  aws-chunked framing as the statement of C12 describes it: a sequence of chunks, each
  `hex(size) ";" <82 bytes of signature extension incl. CRLF> payload <2 bytes CRLF>`,
  closed by a zero-size chunk.  What the 82 and the 2 bytes contain is irrelevant to the
  decoder and therefore arbitrary here.
-/
namespace GFS.Spec.ChunkSpec
open GFS GFS.Model.Chunk

structure Chunk where
  digits  : Bytes      -- the hexadecimal size field (without ';')
  ext     : Bytes      -- "chunk-signature=" + 64 hex digits + CRLF
  payload : Bytes
  trailer : Bytes      -- CRLF
deriving Repr

/-- value of a string of hex digits -/
def hexValue (ds : Bytes) : Nat := ds.foldl (fun acc c => acc * 16 + hexDigitVal c) 0

def Chunk.WF (c : Chunk) : Prop :=
  c.digits ≠ [] ∧ c.digits.all isHex = true ∧ hexValue c.digits = c.payload.length ∧
  c.payload.length ≤ 9223372036854775807 ∧ c.ext.length = 82 ∧ c.trailer.length = 2

instance (c : Chunk) : Decidable c.WF := by unfold Chunk.WF; exact inferInstance

def encodeChunk (c : Chunk) : Bytes := c.digits ++ [59] ++ c.ext ++ c.payload ++ c.trailer

/-- data chunks followed by the final zero-size chunk -/
def encode (cs : List Chunk) (final : Chunk) : Bytes :=
  (cs.map encodeChunk).flatten ++ encodeChunk final

def payload (cs : List Chunk) : Bytes := (cs.map (·.payload)).flatten

/-- a well-formed stream: every data chunk non-empty, the final one empty -/
def StreamWF (cs : List Chunk) (final : Chunk) : Prop :=
  (∀ c ∈ cs, c.WF ∧ c.payload ≠ []) ∧ final.WF ∧ final.payload = []

instance (cs : List Chunk) (final : Chunk) : Decidable (StreamWF cs final) := by
  unfold StreamWF; exact inferInstance

end GFS.Spec.ChunkSpec
